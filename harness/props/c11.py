"""
C11  The job arrayer hands off every job exactly once.

Spec: spec/conc/JobArrayer.tla (PlusCal, as built: add_job under the lock, get_stale_descrs
iterating `pending` without it -- one step per key --, submit_pending_jobs popping under the lock,
submitting outside, re-inserting the remainder under the lock, `num_pending -= len(jobs)` as
read-then-write outside the lock).  Two named deviations (constants): DevUnlockedScan,
DevUnlockedDec.  TLC, all interleavings: with both repaired every property holds (incl. liveness);
as built, NoError fails only through DevUnlockedScan and QuiescentCount only through
DevUnlockedDec, everything else still holds.

Binding (the real redun.job_array.JobArrayer under harness/threadctl.py, recording callbacks):
  spec -> code: TLC's counterexamples for the deviations are replayed on the real class by
                label -> source-line anchors computed from the current tree;
  code -> spec: schedules from bounded-pre-emption enumeration and seeded random scheduling are
                executed, the events at the stable seams (add_job call/return, submit callback,
                on_error, num_pending at quiescent points) recorded, and every recorded execution
                is validated by TLC against the contract-level spec JobArrayer_Trace.tla.
"""

from __future__ import annotations

import copy
import traceback
from typing import Any, Optional

from .. import threadctl as tc
from ..conc import Anchors, TLCPool, any_matcher, cex_labels, kind_matcher, line_matcher, validate_traces
from ..core import Ctx, MachineryError
from ..tlc import expect_clean, expect_violation, run_tlc

META = {
    "level": "model_checking",
    "level_text": "TLC checks exactly-once hand-off, the batch rule, absence of monitor failure, the "
                  "quiescent pending count and eventual hand-off on all interleavings of add_job with "
                  "the monitor thread of the as-built PlusCal model (3-4 jobs, 2-3 descriptors); the "
                  "real JobArrayer is run under a deterministic thread controller (line-granular "
                  "pre-emption) on TLC's counterexample schedules, on all schedules with a bounded "
                  "number of pre-emptions and on seeded random schedules, and every recorded "
                  "execution is validated by TLC against the contract-level trace spec.",
    "level_note": "Pre-emption at source-line granularity of job_array.py (the counter decrement "
                  "additionally split before its store); bounded job streams; virtual time; CPython "
                  "with the GIL (sequentially consistent memory).",
    "technique": "PlusCal/TLA+ as-built model with named deviations, TLC exhaustive + liveness; "
                 "spec->code counterexample replay by source anchors; code->spec contract-level trace "
                 "validation by TLC of controlled executions (bounded pre-emption + random)",
    "rule": "a case is one controlled execution (scenario, schedule) of the real JobArrayer; distinct = "
            "distinct (scenario, schedule); non-trivial = the schedule pre-empts a thread at least once "
            "or lets the monitor run between two add_job calls, and at least one batch is submitted",
}

KEY_SCAN = "stale-scan-unlocked"
KEY_DEC = "num-pending-unlocked-decrement"

SKIP_FUNCS = {"__hash__", "__eq__", "__repr__", "__init__"}

# ------------------------------------------------------------------------------------------ tasks
_TASKS: dict[str, Any] = {}


def _tasks():
    if not _TASKS:
        from redun import task

        @task(namespace="verif_c11", name="ta")
        def ta(x):
            return x

        @task(namespace="verif_c11", name="tb")
        def tb(x):
            return x

        @task(namespace="verif_c11", name="ts", script=True)
        def ts(x):
            return "true"

        _TASKS.update(ta=ta, tb=tb, ts=ts)
    return _TASKS


def make_jobs(scn: dict) -> list:
    from redun.scheduler import Job

    t = _tasks()
    jobs = []
    for k, d in enumerate(scn["descr"], 1):
        if k in scn.get("script", ()):
            tk = t["ts"]
            expr = tk(k)
        elif d == "A":
            tk = t["ta"]
            expr = tk(k)
        elif d == "B":
            tk = t["tb"]
            expr = tk(k)
        else:  # "C": same task as A, different options
            tk = t["ta"]
            expr = tk.options(memory=8)(k)
        j = Job(tk, expr)
        j.args = ((k,), {})
        j.id = f"job{k}"
        jobs.append(j)
    return jobs


def scenario(descr: str, mn: int, mx: int, stale_ticks: int = 0, script=(), gaps=None) -> dict:
    return {"descr": list(descr), "min": mn, "max": mx, "stale_ticks": stale_ticks,
            "script": sorted(script), "gaps": {str(k): v for k, v in (gaps or {}).items()}}


# ------------------------------------------------------------------------------------------ anchors
class Tree:
    """Everything computed from the current source tree at start-up."""

    def __init__(self):
        import redun.job_array as ja

        self.ja = ja
        self.file = ja.__file__
        self.base = self.file.rsplit("/", 1)[-1]
        for attr in ("add_job", "stop", "_monitor_stale_jobs"):
            if not hasattr(ja.JobArrayer, attr):
                raise MachineryError(f"JobArrayer.{attr} is gone: the C11 binding needs updating")
        a = self.anch = Anchors(self.file, "JobArrayer")
        L = lambda f, rx, kind="line": line_matcher(self.base, a.lines(f, rx), kind)  # noqa: E731
        self.dec_lines = a.lines("submit_pending_jobs", r"self\.num_pending\s*-=")
        self.inc_lines = a.lines("add_job", r"self\.num_pending\s*\+=")
        role_mon = "_monitor_stale_jobs"
        self.match = {
            "a_lock": ("main", L("add_job", r"with self\._lock")),
            "a_ins": ("main", L("add_job", r"self\.pending\[descr\]\.append\(job\)")),
            "a_ts": ("main", L("add_job", r"self\.pending_timestamps\[descr\]\s*=")),
            "a_cnt": ("main", L("add_job", r"self\.num_pending\s*\+=")),
            "a_unlock": ("main", L("add_job", r"with self\._lock")),
            "a_start": ("main", L("start", r"_monitor_thread\.start\(\)|^\s*return\s*$")),
            "a_stop": ("main", L("stop", r"_exit_flag\.set\(\)")),
            "m_idle": (role_mon, kind_matcher("start")),
            "m_wait": (role_mon, kind_matcher("event-wait-timed")),
            "s_start": (role_mon, L("get_stale_descrs", r"^\s*stales\s*=\s*\[")),
            "s_visit": (role_mon, any_matcher(L("get_stale_descrs", r"self\.pending_timestamps\[descr\]"),
                                              L("_monitor_stale_jobs", r"self\._on_error\(error\)"))),
            "s_fetch": (role_mon, any_matcher(L("get_stale_descrs", r"^\s*stales\s*=\s*\["),
                                              L("_monitor_stale_jobs", r"self\._on_error\(error\)"))),
            "s_done": (role_mon, L("get_stale_descrs", r"return stales")),
            "p_lock": (role_mon, L("submit_pending_jobs", r"with self\._lock")),
            "p_pop": (role_mon, L("submit_pending_jobs", r"self\.pending\.pop\(descr\)")),
            "p_pop2": (role_mon, L("submit_pending_jobs", r"self\.pending_timestamps\.pop\(descr\)")),
            "p_unlock": (role_mon, L("submit_pending_jobs", r"with self\._lock")),
            "p_submax": (role_mon, L("submit_pending_jobs", r"self\._submit_jobs\(")),
            "p_submit": (role_mon, L("submit_pending_jobs", r"self\._submit_jobs\(")),
            "p_single": (role_mon, L("submit_pending_jobs", r"self\._submit_jobs\(")),
            "p_relock": (role_mon, L("submit_pending_jobs", r"with self\._lock")),
            "p_reins": (role_mon, L("submit_pending_jobs", r"self\.pending\[descr\]\.extend\(")),
            "p_rets": (role_mon, L("submit_pending_jobs", r"self\.pending_timestamps\[descr\]\s*=")),
            "p_reunlock": (role_mon, L("submit_pending_jobs", r"with self\._lock")),
            "d_read": (role_mon, L("submit_pending_jobs", r"self\.num_pending\s*-=")),
            "d_write": (role_mon, L("submit_pending_jobs", r"self\.num_pending\s*-=", "store")),
        }
        # static part of the attribution of a failure to one of the two documented races: the
        # race "X runs without the lock" can only be blamed while X does run without the lock
        scan_lines = a.lines("get_stale_descrs", r"for descr in self\.pending")
        self.scan_unlocked = bool(scan_lines) and all(
            a.under_with("get_stale_descrs", ln, r"self\._lock") is False for ln in scan_lines)
        self.dec_unlocked = bool(self.dec_lines) and all(
            a.under_with("submit_pending_jobs", ln, r"self\._lock") is False for ln in self.dec_lines)
        self.missing = sorted(set(a.missing))
        self.split = {(self.file, ln) for ln in self.dec_lines}

    def directives(self, labels: list[str]) -> list:
        return [self.match[lb] for lb in labels if lb in self.match]


# ------------------------------------------------------------------------------------------ one execution
INTERVAL = 1.0


def execute(tree: Tree, scn: dict, chooser, detail: bool = False) -> dict:
    """Run the real JobArrayer once under the controller; returns events (+ step log if detail)."""
    ja = tree.ja
    events: list[dict] = []
    steps: list = []
    errs: list[dict] = []
    state = {"in_add": False, "last_quiet": None, "nsub": 0, "nret": 0}
    jobs = make_jobs(scn)
    index = {id(j): k for k, j in enumerate(jobs, 1)}
    n = len(jobs)
    handed = [0] * (n + 1)

    def ev(e, j=0, b=(), np_=0):
        events.append({"e": e, "j": j, "b": list(b), "np": np_})

    def submit_cb(js):
        b = [index.get(id(j), 0) for j in js]
        for k in b:
            if 0 < k <= n:
                handed[k] += 1
        state["nsub"] += 1
        ev("submit", b=b)

    def on_error(e):
        tb = traceback.extract_tb(e.__traceback__)
        fn = next((f.name for f in reversed(tb) if f.filename == tree.file), "?")
        errs.append({"type": type(e).__name__, "msg": str(e)[:200], "func": fn, "step": len(ctl.steps)})
        ev("error")

    def on_step(c, st):
        others = [t for t in c.threads if t.index != 0]
        if detail:
            pend = getattr(arr, "pending", None)
            try:
                proj = [len(pend), sum(len(v) for v in pend.values())] if pend is not None else [None, None]
            except Exception:  # noqa
                proj = [None, None]
            steps.append({"t": st.thread, "role": st.role, "loc": list(st.loc),
                          "proj": proj + [getattr(arr, "num_pending", None), state["nsub"]],
                          "parked": {t.name: list(t.loc) for t in c.threads}})
        if state["in_add"]:
            return
        for t in others:
            if t.status == "finished":
                continue
            if not (t.voluntary and t.loc[0] in ("event-wait-timed", "sleep") and t.loc[-1] == t.role):
                return
        if not hasattr(arr, "num_pending"):
            raise MachineryError("JobArrayer.num_pending is gone (public counter read by the executors)")
        sig = (arr.num_pending, state["nsub"], state["nret"])
        if sig != state["last_quiet"]:
            state["last_quiet"] = sig
            ev("quiet", np_=arr.num_pending)

    ctl = tc.Controller([tree.file], split_lines=tree.split, max_steps=6000, on_step=on_step,
                        skip_funcs=SKIP_FUNCS)
    saved = (ja.threading, ja.time)
    ja.threading, ja.time = ctl.threading, ctl.time
    try:
        arr = ja.JobArrayer(submit_cb, on_error, submit_interval=INTERVAL,
                            stale_time=(scn["stale_ticks"] + 0.5) * INTERVAL,
                            min_array_size=scn["min"], max_array_size=scn["max"])
        gaps = scn.get("gaps", {})

        def main():
            for k, job in enumerate(jobs, 1):
                ev("add", j=k)
                state["in_add"] = True
                arr.add_job(job)
                state["in_add"] = False
                state["nret"] += 1
                ev("ret", j=k)
                g = gaps.get(str(k))
                if g:
                    ctl.time.sleep(g * INTERVAL)
                else:
                    ctl.pause("between-adds")
            t_end = ctl.now + (scn["stale_ticks"] + 3 + n) * INTERVAL
            ctl.wait_until(lambda: all(h >= 1 for h in handed[1:]) or bool(errs) or ctl.now >= t_end,
                           "drain")
            arr.stop()
            ev("end")

        res = ctl.run(main, chooser)
    finally:
        ja.threading, ja.time = saved
    if res.outcome != "done":
        ev("stuck")
    for name, exc in res.errors.items():
        # an exception that escaped a thread's top level without reaching on_error
        errs.append({"type": type(exc).__name__, "msg": str(exc)[:200], "func": "<uncaught>", "thread": name})
        if not any(e["e"] == "stuck" for e in events):
            ev("stuck")
    out = {"_res": res, "events": events, "schedule": res.schedule, "outcome": res.outcome, "errs": errs,
           "npre": sum(s.cost for s in res.steps), "nsub": state["nsub"],
           "interleaved": _interleaved(res), "blocked": [list(map(str, b)) for b in res.blocked]}
    if detail:
        out["steps"] = steps
    return out


def _interleaved(res: tc.Result) -> bool:
    """Did the monitor run between the first and the last step of the adder inside add_job?"""
    adder = [i for i, s in enumerate(res.steps) if s.thread == "T0" and len(s.loc) > 3 and s.loc[3] == "add_job"]
    if not adder:
        return False
    return any(s.thread != "T0" for s in res.steps[adder[0]:adder[-1]])


def to_trace(scn: dict, events: list) -> dict:
    return {"min": scn["min"], "max": scn["max"], "descr": scn["descr"], "ev": events}


TRACE_CFG = "SPECIFICATION TSpec\nINVARIANT AtMostOnce\nINVARIANT OnlyAdded\nCHECK_DEADLOCK FALSE\n"


# ------------------------------------------------------------------------------------------ classification
def classify(tree: Tree, run: dict, pos: int) -> tuple[Optional[str], str]:
    """Attribute a rejected execution (first unacceptable event at 1-based index pos) to one of the
    two documented races, or to nothing (-> plain VIOLATION).  `run` must carry the step log."""
    evs = run["events"]
    e = evs[pos - 1] if 0 < pos <= len(evs) else {"e": "?"}
    steps = run.get("steps", [])
    if e["e"] == "error" and run["errs"]:
        er = run["errs"][0]
        what = f"on_error called with {er['type']}({er['msg']!r}) raised in {er['func']}"
        shape = er["func"] == "get_stale_descrs" and (
            (er["type"] == "RuntimeError" and "changed size during iteration" in er["msg"])
            or er["type"] == "KeyError")
        if shape and tree.scan_unlocked:
            # the race: another thread was inside add_job while the monitor was scanning
            upto = min(er.get("step", len(steps)), len(steps))
            start = 0
            for i in range(upto - 1, -1, -1):
                s = steps[i]
                if s["t"] != "T0" and len(s["loc"]) > 3 and s["loc"][3] == "get_stale_descrs":
                    start = i
                else:
                    if s["t"] != "T0" and start:
                        break
            racing = any(
                any(nm == "T0" and len(lc) > 3 and lc[3] in ("add_job", "start") for nm, lc in s["parked"].items())
                or (s["t"] == "T0" and len(s["loc"]) > 3 and s["loc"][3] == "add_job")
                for s in steps[start:upto])
            if racing:
                return KEY_SCAN, what + " while add_job was mutating the maps (get_stale_descrs reads them without the lock)"
        return None, what
    if e["e"] in ("quiet", "end"):
        # lost update: an increment executed between the load and the store of the decrement
        lost = 0
        open_read = False
        for s in steps:
            lc = s["loc"]
            if s["t"] != "T0" and len(lc) > 2 and lc[1] == tree.base and lc[2] in tree.dec_lines:
                if lc[0] == "line":
                    open_read = True
                elif lc[0] == "store":
                    open_read = False
            elif s["t"] != "T0":
                open_read = False     # the monitor moved on without a separate store step
            elif s["t"] == "T0" and open_read and len(lc) > 2 and lc[0] == "line" and lc[2] in tree.inc_lines:
                lost += 1
        notho = _not_handed(evs[:pos])
        if e["e"] == "quiet":
            what = (f"at quiescence num_pending = {e['np']} but {notho} job(s) added and not yet handed off")
        else:
            what = f"hand-off incomplete at the end: {notho} job(s) never submitted / submitted twice"
        if lost and tree.dec_unlocked and e["e"] == "quiet" and notho - e["np"] > 0:
            return KEY_DEC, what + (f" ({lost} increment(s) of add_job fell between the load and the store of "
                                    "`num_pending -= len(jobs)`, which runs outside the lock)")
        return None, what
    if e["e"] == "submit":
        return None, f"submitted batch {e['b']} breaks the batch rule / exactly-once (min={run.get('min')}, max={run.get('max')})"
    if e["e"] == "stuck":
        return None, f"execution did not finish: {run['outcome']} blocked={run['blocked']} errs={run['errs']}"
    return None, f"event {e} not acceptable"


def _not_handed(evs: list) -> int:
    ret, sub = set(), {}
    for e in evs:
        if e["e"] == "ret":
            ret.add(e["j"])
        elif e["e"] == "submit":
            for k in e["b"]:
                sub[k] = sub.get(k, 0) + 1
    return len([j for j in ret if sub.get(j, 0) == 0])


# ------------------------------------------------------------------------------------------ model runs
def model_cfg(n: int, descr: str, mn: int, mx: int, st: int, scan: bool, dec: bool, invs: list[str],
              props: tuple = (), script=()) -> str:
    sb = ", ".join(str(k + 1) for k, x in enumerate(descr) if x == "B")
    sc = ", ".join(str(k + 1) for k, x in enumerate(descr) if x == "C")
    s = (f"SPECIFICATION Spec\nCONSTANTS\n N = {n}\n SetB = {{{sb}}}\n SetC = {{{sc}}}\n"
         f" Script = {{{', '.join(map(str, script))}}}\n Min = {mn}\n Max = {mx}\n StaleTicks = {st}\n"
         f" DevUnlockedScan = {'TRUE' if scan else 'FALSE'}\n DevUnlockedDec = {'TRUE' if dec else 'FALSE'}\n")
    for i in invs:
        s += f"INVARIANT {i}\n"
    for p in props:
        s += f"PROPERTY {p}\n"
    return s


SAFE = ["TypeOK", "AtMostOnce", "BatchRule", "MapsInSync"]
ALL = SAFE + ["NoError", "QuiescentCount", "ExactlyOnceAtEnd"]


class Collector:
    """Gathers executions, validates them in one TLC batch, reports."""

    def __init__(self, ctx: Ctx, tree: Tree):
        self.ctx, self.tree = ctx, tree
        self.runs: list[tuple[dict, dict, str]] = []   # (scenario, run, source)

    def add(self, scn: dict, run: dict, source: str) -> None:
        run.pop("_res", None)
        self.runs.append((scn, run, source))
        self.ctx.count_eval()
        if run["nsub"] and (run["npre"] or run["interleaved"]):
            self.ctx.distinct([scn, run["schedule"]])

    def validate(self, what: str) -> dict:
        ctx, tree = self.ctx, self.tree
        traces = [to_trace(s, r["events"]) for s, r, _ in self.runs]
        # negative controls on a recorded execution: (1) drop one submit event, (2) duplicate one,
        # (3) corrupt one quiescent count.  Candidates: recorded executions without pre-emption;
        # the first one TLC accepts unmodified is used (fallback: a hand-written minimal trace, so
        # that a tree on which every execution fails still gets a verdict instead of exit 2).
        cands = [(s, r["events"]) for s, r, _ in self.runs
                 if not r["errs"] and r["npre"] == 0 and r["events"] and r["events"][-1]["e"] == "end"
                 and any(e["e"] == "submit" for e in r["events"])
                 and any(e["e"] == "quiet" for e in r["events"])][:4]
        E = lambda e, j=0, b=(), np_=0: {"e": e, "j": j, "b": list(b), "np": np_}  # noqa: E731
        cands.append((scenario("A", 2, 2), [E("add", 1), E("ret", 1), E("quiet", np_=1), E("submit", b=[1]),
                                            E("quiet", np_=0), E("end")]))
        nreal = len(traces)
        ctl_at = []
        for s0, ev0 in cands:
            ksub = next(i for i, e in enumerate(ev0) if e["e"] == "submit")
            kq = max(i for i, e in enumerate(ev0) if e["e"] == "quiet")
            dropped = ev0[:ksub] + ev0[ksub + 1:]
            doubled = ev0[:ksub + 1] + [ev0[ksub]] + ev0[ksub + 1:]
            wrongq = copy.deepcopy(ev0)
            wrongq[kq]["np"] += 1
            ctl_at.append((len(traces), ksub, kq))
            traces += [to_trace(s0, ev0), to_trace(s0, dropped), to_trace(s0, doubled), to_trace(s0, wrongq)]
        verdicts, _ = validate_traces(ctx, "conc/JobArrayer_Trace.tla", TRACE_CFG, traces, what)
        pick = next(((at, ksub, kq) for at, ksub, kq in ctl_at if verdicts[at + 1][0]), None)
        ctx.require(pick is not None, "not even the hand-written base trace of the negative controls is accepted")
        at, ksub, kq = pick
        ctx.note("negative_control_base", "recorded execution" if at != ctl_at[-1][0] else "hand-written trace")
        ctx.negative_control(not verdicts[at + 2][0],
                             "recorded execution with one submit event dropped must be rejected")
        ctx.negative_control(not verdicts[at + 3][0] and verdicts[at + 3][1] == ksub + 2,
                             "recorded execution with one submit event duplicated must be rejected at the duplicate")
        ctx.negative_control(not verdicts[at + 4][0] and verdicts[at + 4][1] == kq + 1,
                             "recorded execution with a wrong quiescent num_pending must be rejected at that event")
        stats = {"accepted": 0, "rejected": 0, "by_key": {}}
        for tid in range(1, nreal + 1):
            scn, run, source = self.runs[tid - 1]
            acc, pos = verdicts[tid]
            ctx.count_impl_trace()
            if acc:
                stats["accepted"] += 1
                continue
            stats["rejected"] += 1
            report(ctx, tree, scn, run, source, pos, stats)
        self.runs = []
        return stats


_REPORTED: dict[str, int] = {}


def report(ctx: Ctx, tree: Tree, scn: dict, run: dict, source: str, pos: int, stats: dict) -> None:
    # re-execute with the step log (deterministic) to attribute the failure
    det = execute(tree, scn, tc.ReplayChooser(run["schedule"]), detail=True)
    ctx.require(det["events"] == run["events"],
                "re-execution of a recorded schedule produced different events: controller not deterministic")
    det["min"], det["max"] = scn["min"], scn["max"]
    key, what = classify(tree, det, pos)
    k = key or "<none>"
    stats["by_key"][k] = stats["by_key"].get(k, 0) + 1
    _REPORTED[k] = _REPORTED.get(k, 0) + 1
    limit = 1 if key else 5
    if _REPORTED[k] > limit:
        return
    ctx.violation(f"JobArrayer: {what} [scenario descr={''.join(scn['descr'])} min={scn['min']} "
                  f"max={scn['max']}, source={source}]",
                  {"scenario": scn, "schedule": run["schedule"], "source": source, "events": det["events"],
                   "rejected_at_event": pos, "errors": det["errs"],
                   "steps": [[s["t"], s["loc"], s["proj"]] for s in det["steps"]]},
                  key=key)


def run(ctx: Ctx) -> None:
    ctx.assume("pre-emption only at source-line boundaries of job_array.py (plus before the store of "
               "`num_pending -= ...`); callbacks and everything outside job_array.py run atomically",
               "one thread calls add_job (the scheduler thread), as in the executors",
               "time is virtual: the monitor's timed wait is one tick, stale_time = StaleTicks + 0.5 ticks",
               "CPython with the GIL: sequentially consistent memory")
    _REPORTED.clear()
    tree = Tree()
    ctx.note("anchors_missing", tree.missing)
    ctx.note("as_built", {"scan_unlocked": tree.scan_unlocked, "decrement_unlocked": tree.dec_unlocked})

    # ---- 1. model checking: all interleavings (TLC runs side by side with the executions below) --
    pool = TLCPool(ctx, parallel=ctx.pick(3, 4))
    W = ctx.pick(2, 4)
    M = "conc/JobArrayer.tla"
    kw = dict(deadlock=False, timeout=2400)
    # the deviations break exactly their property; the counterexamples are replayed below
    cex_cfgs = [("resize", (3, "ABA", 2, 2, 0), True, False, "NoResize"),
                ("keyerror", (3, "ABA", 2, 2, 0), True, False, "NoKeyError"),
                ("lost-update", (3, "AAA", 2, 2, 0), False, True, "QuiescentCount")]
    for name, (n, d, mn, mx, st), scan, dec, inv in cex_cfgs:
        pool.submit("cex:" + name, M, model_cfg(n, d, mn, mx, st, scan, dec, [inv]), workers=1, **kw)
    fixed = [(4, "AABA", 2, 2, 0, ())] if ctx.quick else \
        [(3, "ABA", 2, 2, 0, ()), (4, "AABA", 2, 2, 0, ()), (4, "AAAB", 2, 3, 1, ()), (4, "AAAA", 2, 3, 0, ()),
         (4, "ABCA", 2, 2, 1, (3,)), (4, "ABAB", 2, 3, 0, ()), (3, "AAA", 0, 2, 0, ()), (5, "AABAB", 2, 2, 0, ())]
    clean = []
    for (n, d, mn, mx, st, scr) in fixed:
        nm = f"repaired model N={n} descr={d} min={mn} max={mx} stale={st} script={list(scr)}"
        pool.submit(nm, M, model_cfg(n, d, mn, mx, st, False, False, ALL, ("Live",), scr), workers=W, **kw)
        clean.append(nm)
    # as built: everything but the two deviation-dependent properties still holds
    n, d, mn, mx, st, scr = (4, "AABA", 2, 2, 0, ()) if ctx.quick else (4, "ABCA", 2, 2, 0, (3,))
    nm = f"as-built model N={n} descr={d}: deviation-independent invariants"
    pool.submit(nm, M, model_cfg(n, d, mn, mx, st, True, True, SAFE, (), scr), workers=W, **kw)
    clean.append(nm)
    if not ctx.quick:
        for (scan, dec, invs) in [(True, False, SAFE + ["QuiescentCount"]), (False, True, SAFE + ["NoError"])]:
            nm = f"single deviation scan={scan} dec={dec}: the other property still holds"
            pool.submit(nm, M, model_cfg(4, "AABA", 2, 2, 0, scan, dec, invs), workers=W, **kw)
            clean.append(nm)
    col = Collector(ctx, tree)
    phase = {"cex_models": round(ctx.elapsed(), 1)}
    # ---- 3. code -> spec: bounded pre-emption enumeration + seeded random schedules -------------
    scns = [scenario("ABA", 2, 2), scenario("AAB", 2, 2, gaps={1: 2}), scenario("AAAA", 2, 3, gaps={2: 1}),
            scenario("AAA", 2, 2, 1), scenario("ABA", 2, 2, script=(2,)),
            # a group larger than max at pick-up and an add of the same group while the first array is handed off
            scenario("AAAA", 2, 2, gaps={3: 1})]
    if not ctx.quick:
        scns += [scenario("AABAB", 2, 2, gaps={2: 2}), scenario("ABCA", 2, 3, 1, gaps={3: 1}),
                 scenario("AAAAA", 3, 4, gaps={4: 2}), scenario("AB", 0, 2), scenario("AAA", 1, 2, gaps={1: 1}),
                 scenario("ABAB", 2, 2, 1, gaps={2: 3})]
    bound = ctx.pick(2, 3)
    max_runs = ctx.pick(160, 1200)
    nrand = ctx.pick(60, 350)
    explored = {}
    for si, scn in enumerate(scns):
        cnt = 0
        for prefix, res in tc.explore(lambda p, scn=scn: _exec_res(tree, scn, p, col, "enumeration"), bound,
                                      max_runs, free_bound=ctx.pick(2, 3)):
            cnt += 1
        explored[f"{si}:" + "".join(scn["descr"]) + f"/{scn['min']}-{scn['max']}"] = cnt
        for k in range(nrand):
            seed = ctx.rng.randrange(1 << 30)
            import random

            runx = execute(tree, scn, tc.RandomChooser(random.Random(seed), stay=ctx.rng.choice([0.5, 0.7, 0.85])))
            col.add(scn, runx, f"random:{seed}")
    ctx.note("schedules_enumerated", explored)
    ctx.note("preemption_bound", bound)
    cexs = []
    for name, (n, d, mn, mx, st), scan, dec, inv in cex_cfgs:
        r = pool.result("cex:" + name)
        ctx.add_tlc(expect_violation(r, inv, f"JobArrayer.tla deviation control {name}"))
        labels = cex_labels(r)
        ctx.require(len(labels) > 5, f"could not read the counterexample for {name}")
        cexs.append((name, scenario(d, mn, mx, st), labels))
    ctx.note("model_counterexamples", {nm: " ".join(lb) for nm, _, lb in cexs})


    # ---- 2. spec -> code: replay TLC's counterexamples by anchors ------------------------------
    replayed = {}
    for name, scn, labels in cexs:
        ch = tc.DirectedChooser(tree.directives(labels))
        runx = execute(tree, scn, ch)
        replayed[name] = {"directives_followed": ch.k, "of": len(ch.directives),
                          "errs": [e["type"] for e in runx["errs"]]}
        col.add(scn, runx, f"tlc-counterexample:{name}")
    ctx.note("counterexample_replay", replayed)
    ctx.sample({"source": "tlc-counterexample", "labels": cexs[0][2], "schedule": "".join(
        s[1] for s in col.runs[0][1]["schedule"])})

    ok_run = next((r for s, r, src in col.runs if not r["errs"] and r["npre"] > 0), None)
    if ok_run:
        ctx.sample({"source": "enumeration", "schedule": "".join(s[1] for s in ok_run["schedule"]),
                    "events": ok_run["events"][:12]})
    phase["executions"] = round(ctx.elapsed(), 1)
    for nm in clean:
        ctx.add_tlc(expect_clean(pool.result(nm), "JobArrayer.tla " + nm))
    phase["models"] = round(ctx.elapsed(), 1)
    pool.close()
    ctx.note("model_configs_clean", clean)
    stats = col.validate("all")
    ctx.note("trace_verdicts", stats)
    phase["trace_validation"] = round(ctx.elapsed(), 1)
    ctx.note("phase_elapsed_s", phase)
    ctx.sample({"source": "scenario", "scenario": scns[1]})
    # anchors only steer the replay of TLC's counterexamples; the enumeration and the random schedules pre-empt
    # at every line of job_array.py whatever it looks like, so a reworded line is reported, not fatal
    if tree.missing:
        ctx.note("counterexample_replay_partly_blind", tree.missing)


def _exec_res(tree: Tree, scn: dict, prefix: list[str], col: Collector, source: str) -> tc.Result:
    runx = execute(tree, scn, tc.ReplayChooser(prefix))
    res = runx["_res"]
    col.add(scn, runx, source)
    return res


def replay(ctx: Ctx, rec: dict) -> None:
    r = rec["replay"]
    tree = Tree()
    if "schedule" not in r:
        run(ctx)
        return
    scn = r["scenario"]
    runx = execute(tree, scn, tc.ReplayChooser(r["schedule"]))
    verdicts, _ = validate_traces(ctx, "conc/JobArrayer_Trace.tla", TRACE_CFG, [to_trace(scn, runx["events"])],
                                  "replay")
    acc, pos = verdicts[1]
    if not acc:
        report(ctx, tree, scn, runx, "replay", pos, {"by_key": {}})
