"""
C06  Each distinct call runs at most once per execution.

Spec: Scheduler.tla invariant Once (no key is handed to an executor twice in one execution) over
all schedules, with the three mechanisms as separate branches of Exec (collapse onto a pending twin,
CSE hit on a finished twin, submit) and expression-level dedup per parent (SlotOf / JobIdx); the
invariant Deterministic forces every duplicate's result to be the twin's (the root value is the sum
over all child positions).  Sched_Contract "once" clause: no (task hash, args hash, context) is
submitted twice unless the job opted out (cache_scope NONE / no provenance); "determ": the run's value
equals the reference value computed by TLC, so a duplicate that received something else is visible.
"""

from __future__ import annotations

from ..core import Ctx
from .. import schedlab

META = {
    "level": "model_checking",
    "level_text": "TLC: Once and Deterministic over all schedules of programs with duplicates created "
                  "before / while / after the twin runs, under limits 1-2, with failing twins and repeated "
                  "expressions under one parent; real executions (TLC behaviours + random schedules) "
                  "validated by TLC against the once/determ clauses.",
    "level_note": "Submissions are observed at executor.submit with the job's own task hash, args hash "
                  "and context hash; the reference value comes from the spec's big-step operator RefVal.",
    "technique": "explicit TLA+ as-built scheduler model + TLC invariants; spec->code schedule replay, "
                 "code->spec contract trace validation",
    "rule": "a case is (program, plan, complete schedule); distinct by program and choice sequence; "
            "non-trivial = the program contains at least two calls with the same key or expression",
}

ON = ["once", "determ"]


def _corrupt(t: dict) -> bool:
    subs = [e for e in t["evs"] if e["ev"] == "submit" and e["optout"] == 0]
    if len(subs) < 2 or subs[-1]["key"] == subs[0]["key"]:
        return False
    subs[-1]["key"] = subs[0]["key"]  # pretend the last submission repeated the first key
    return True


def run(ctx: Ctx) -> None:
    ctx.assume("task functions are deterministic", "cache_scope NONE and prov=False jobs are exempt")
    schedlab.suite(ctx, ON, n_random_progs=ctx.pick(4, 30), n_sim=ctx.pick(80, 1500),
                   n_random_hist=ctx.pick(40, 800), corrupt=_corrupt, tag="c06")
    # third trace source: the repository's own tests, recorded with the real thread / process executors by the
    # pytest plugin (harness/pytest_trace.py): every Scheduler.run must hand each call key to an executor once
    mods = ctx.pick(["test_limits.py", "test_partial_task.py", "test_functools.py"],
                    ["test_limits.py", "test_scheduler.py", "test_errors.py", "test_handle.py", "test_context.py",
                     "test_functools.py", "test_tasks.py", "test_partial_task.py", "test_scheduler_subrun.py",
                     "test_promise.py"])
    traces, stats = schedlab.suite_test_traces(ctx, mods, timeout=ctx.pick(600, 3000))
    ctx.note("suite_traces", stats)
    ctx.require(stats["judged"] >= ctx.pick(20, 150), f"too few executions recorded from the test-suite: {stats}")
    verdicts = schedlab.validate(ctx, traces, ["once"], "suite")
    for t, (acc, pos, why) in zip(traces, verdicts):
        ctx.count_impl_trace()
        if not acc:
            ctx.violation(f"execution recorded from the repository's test {t['hdr']['test']} rejected by clause "
                          f"'{why}' at event {pos}: {t['evs'][pos - 1] if pos - 1 < len(t['evs']) else None}",
                          {"test": t["hdr"]["test"], "clause": why, "events": t["evs"]})


def replay(ctx: Ctx, rec: dict) -> None:
    schedlab.replay_record(ctx, rec, ON)
