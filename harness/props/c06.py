"""
C06  Each distinct call runs at most once per execution.

Spec: Scheduler.tla invariant Once (no key is handed to an executor twice in one execution) over
all schedules, with the three mechanisms as separate branches of Exec (collapse onto a pending twin,
CSE hit on a finished twin, submit) and expression-level dedup per parent (SlotOf / JobIdx); the
invariant Deterministic forces every duplicate's result to be the twin's (the root value is the sum
over all child positions).  Sched_Contract "once" clause: no (task hash, args hash, context) is
submitted twice unless the job opted out (cache_scope NONE / no provenance); "determ": the run's value
equals the reference value computed by TLC, so a duplicate that received something else is visible.
"""

from __future__ import annotations

from ..core import Ctx
from .. import schedlab

META = {
    "level": "model_checking",
    "level_text": "TLC: Once and Deterministic over all schedules of programs with duplicates created "
                  "before / while / after the twin runs, under limits 1-2, with failing twins and repeated "
                  "expressions under one parent; real executions (TLC behaviours + random schedules) "
                  "validated by TLC against the once/determ clauses.",
    "level_note": "Submissions are observed at executor.submit with the job's own task hash, args hash "
                  "and context hash; the reference value comes from the spec's big-step operator RefVal.",
    "technique": "explicit TLA+ as-built scheduler model + TLC invariants; spec->code schedule replay, "
                 "code->spec contract trace validation",
    "rule": "a case is (program, plan, complete schedule); distinct by program and choice sequence; "
            "non-trivial = the program contains at least two calls with the same key or expression",
}

ON = ["once", "determ"]


def _corrupt(t: dict) -> bool:
    subs = [e for e in t["evs"] if e["ev"] == "submit" and e["optout"] == 0]
    if len(subs) < 2 or subs[-1]["key"] == subs[0]["key"]:
        return False
    subs[-1]["key"] = subs[0]["key"]  # pretend the last submission repeated the first key
    return True


def run(ctx: Ctx) -> None:
    ctx.assume("task functions are deterministic", "cache_scope NONE and prov=False jobs are exempt")
    schedlab.suite(ctx, ON, n_random_progs=ctx.pick(4, 30), n_sim=ctx.pick(80, 1500),
                   n_random_hist=ctx.pick(40, 800), corrupt=_corrupt, tag="c06")
    none_results(ctx)
    # third trace source: the repository's own tests, recorded with the real thread / process executors by the
    # pytest plugin (harness/pytest_trace.py): every Scheduler.run must hand each call key to an executor once
    mods = ctx.pick(["test_limits.py", "test_partial_task.py", "test_functools.py"],
                    ["test_limits.py", "test_scheduler.py", "test_errors.py", "test_handle.py", "test_context.py",
                     "test_functools.py", "test_tasks.py", "test_partial_task.py", "test_scheduler_subrun.py",
                     "test_promise.py"])
    traces, stats = schedlab.suite_test_traces(ctx, mods, timeout=ctx.pick(600, 3000))
    ctx.note("suite_traces", stats)
    ctx.require(stats["judged"] >= ctx.pick(10, 40), f"too few executions recorded from the test-suite: {stats}")
    verdicts = schedlab.validate(ctx, traces, ["once"], "suite")
    for t, (acc, pos, why) in zip(traces, verdicts):
        ctx.count_impl_trace()
        if not acc:
            ctx.violation(f"execution recorded from the repository's test {t['hdr']['test']} rejected by clause "
                          f"'{why}' at event {pos}: {t['evs'][pos - 1] if pos - 1 < len(t['evs']) else None}",
                          {"test": t["hdr"]["test"], "clause": why, "events": t["evs"]})


def none_results(ctx: Ctx) -> None:
    """A call whose result is None, made again from another parent after the first one finished (evallib.none_twice):
    the finished twin answers it (CSE), nothing is handed to an executor twice -- with default caching, for a
    cache=False task and in a run(cache=False) execution.  Judged by the `once` clause of the contract."""
    import os
    import uuid

    from .. import evallib as L, simloop

    traces, meta = [], []
    for nc in (False, True):
        for run_cache in (True, False):
            for kind, ch in [("policy", simloop.PolicyChooser(late, newest)) for late in (False, True) for newest in (False, True)] \
                    + [("random", simloop.RandomChooser(ctx.rng, 0.5))]:
                db = simloop.clone_db(ctx.scratch, f"none_{uuid.uuid4().hex[:6]}.db")
                bk = simloop.open_backend(db)
                try:
                    s, d = simloop.make_scheduler(bk, limits={}, chooser=ch)
                    out = simloop.run_controlled(s, d, L.none_twice(1, nc), cache=run_cache, execution_id=str(uuid.uuid4()))
                finally:
                    simloop.close_backend(bk)
                    try:
                        os.unlink(db)
                    except OSError:
                        pass
                ctx.require(out["outcome"] == "value" and out["value"] == [None, None], f"none_twice failed: {out}")
                rec = {"mode": "real", "cache": run_cache, "limits": {}, "out": dict(out, value=0), "events": d.events,
                       "digest": {"calls": [], "args": []}}
                traces.append(schedlab.contract_trace({"res": []}, rec, None, None, ""))
                meta.append({"task_cache": not nc, "run_cache": run_cache, "schedule": kind,
                             "submitted": [e["task"] for e in d.events if e["ev"] == "submit"]})
                ctx.count_impl_trace()
                ctx.count_eval()
    ctx.distinct(["none-results"])
    verdicts = schedlab.validate(ctx, traces, ["once"], "c06_none")
    for (acc, pos, why), m in zip(verdicts, meta):
        if not acc:
            ctx.violation(f"a call whose result is None was handed to an executor again although its twin had finished: "
                          f"{why} (task cache={m['task_cache']}, run cache={m['run_cache']}, {m['schedule']} schedule; "
                          f"submitted {m['submitted']})", {"kind": "none-results", **m})
    ctx.note("none_result_duplicates", len(traces))


def replay(ctx: Ctx, rec: dict) -> None:
    if rec["replay"].get("kind") == "none-results":
        none_results(ctx)
        return
    schedlab.replay_record(ctx, rec, ON)
