"""
C12  Failures propagate and are never replayed from the cache.

Spec: Scheduler.tla: Reject handler (release, error call node, synchronous rejection of collapsed
twins, one reject event per parent, wf = err at the root), invariant NoErrorCached (the single
reduction table never holds a failing call) and Deterministic (a run fails iff the reference
evaluation fails) over all schedules and multi-run plans (run, run again, edit the failing task, run).
Sched_Contract "errors" clauses on recorded executions: the error raised by run() has the type and
message of an error raised by a task function *in the same run* (so it was executed again, not
replayed), every failing job is recorded FAILED, a run whose reference evaluation fails never returns
a value.
"""

from __future__ import annotations

import copy
import json

from ..core import Ctx
from .. import evallab as EL
from .. import schedlab

META = {
    "level": "model_checking",
    "level_text": "TLC: NoErrorCached / Deterministic over all schedules and plans with failing leaves at "
                  "depth 1-2, failing twins, second executions on the same backend and an edit that "
                  "repairs the failing task; recorded executions validated by TLC against the errors "
                  "clauses of the contract.",
    "level_note": "Errors handled by catch are outside this property (the statement conditions on 'no enclosing "
                  "catch'); a second family puts one failing call inside AND outside a catch beneath one job (and a "
                  "task error that cannot be pickled) and lets the explicit semantics (Eval.tla) decide that run() raises.",
    "technique": "explicit TLA+ as-built scheduler model + TLC invariants; contract trace validation of "
                 "driven executions",
    "rule": "a case is (program, plan, complete schedule); distinct by program and choice sequence; "
            "non-trivial = some task function raised during the history",
}

ON = ["errors", "determ"]


def _corrupt(t: dict) -> bool:
    # the error surfaced by run() is not one a task raised in this run (i.e. it was replayed)
    end = t["evs"][-1] if t["evs"] else {}
    fails = [e for e in t["evs"] if e["ev"] == "finish" and e["ok"] == 0]
    if end.get("outcome") == "error" and end.get("etype") != "SchedulerError" and fails:
        for e in fails:
            e["ok"] = 1
        return True
    return False


def run(ctx: Ctx) -> None:
    ctx.assume("task functions are deterministic", "no catch / catch_all around the failing call")
    r = schedlab.suite(ctx, ON, n_random_progs=ctx.pick(4, 30), n_sim=ctx.pick(80, 1500),
                       n_random_hist=ctx.pick(40, 800), corrupt=_corrupt, tag="c12")
    nerr = sum(1 for t in r["traces"] if t["evs"] and t["evs"][-1].get("outcome") == "error")
    ctx.note("error_runs_observed", nerr)
    ctx.require(nerr >= 5, f"too few failing executions explored ({nerr}): the check would be vacuous")
    unguarded_next_to_guarded(ctx)


def unguarded_next_to_guarded(ctx: Ctx) -> None:
    """A failing call used twice beneath one job, one use inside a catch and one outside: the use outside has no
    enclosing catch, so run() must raise its error whatever absorbed the other use first (spec/eval/Eval.tla decides
    the admissible outcomes; programs from evallab.shared_expr_program, failing variant)."""
    cases = []
    tries = 0
    while len(cases) < ctx.pick(60, 600) and tries < 20000:
        tries += 1
        e = EL.shared_expr_program(ctx.rng)
        if '"boom"' not in json.dumps(e) and '"kboom"' not in json.dumps(e) and '"lboom"' not in json.dumps(e):
            continue
        obs = EL.run_sim(EL.build(e), ctx.rng, p_finish=ctx.rng.choice([0.15, 0.5, 0.85]))
        cases.append({"id": len(cases) + 1, "e": e, "ctx": EL.to_value({}), "run": EL.to_value({}), "obs": obs})
    # errors that cannot be serialised (the exception holds a lock): run() still raises the task's own error
    for e in (EL.call("lboom", EL.V(1)), EL.call("inc", EL.call("lboom", EL.V(2))),
              {"k": "list", "items": [EL.call("inc", EL.V(1)), EL.call("twice", EL.call("lboom", EL.V(3)))]}):
        for _ in range(2):
            obs = EL.run_sim(EL.build(e), ctx.rng)
            cases.append({"id": len(cases) + 1, "e": e, "ctx": EL.to_value({}), "run": EL.to_value({}), "obs": obs})
    raising = [c for c in cases if c["obs"]["t"] == "raise"]
    ctx.require(len(raising) >= 10, f"too few programs whose unguarded use must raise ({len(raising)})")
    bad = copy.deepcopy(raising[0])
    bad["id"] = len(cases) + 1
    bad["obs"] = {"t": "list", "v": [{"t": "int", "v": -1}]}
    verdicts = EL.judge(ctx, cases + [bad], "c12_shared")
    ctx.negative_control(not verdicts[bad["id"]][0], "a returned value where the unguarded use must raise must be rejected")
    for c in cases:
        acc, n, exp = verdicts[c["id"]]
        ctx.count_eval()
        ctx.count_impl_trace()
        ctx.distinct(["guarded+unguarded", c["e"]])
        if not acc:
            ctx.violation(f"a failing call used inside and outside a catch: run() gave {json.dumps(c['obs'])[:300]}; "
                          f"the semantics admits {json.dumps(exp)[:300]} for {json.dumps(c['e'])[:300]}",
                          {"kind": "eval", "e": c["e"], "obs": c["obs"]})
    ctx.note("guarded_and_unguarded_uses_of_one_failing_call", {"programs": len(cases), "must_raise": len(raising)})


def replay(ctx: Ctx, rec: dict) -> None:
    r = rec["replay"]
    if r.get("kind") == "eval":
        obs = EL.run_sim(EL.build(r["e"]), ctx.rng)
        v = EL.judge(ctx, [{"id": 1, "e": r["e"], "ctx": EL.to_value({}), "run": EL.to_value({}), "obs": obs}], "replay")
        if not v[1][0]:
            ctx.violation(f"replayed program gave {obs}; admits {v[1][2]}", r)
        return
    schedlab.replay_record(ctx, rec, ON)
