"""
C12  Failures propagate and are never replayed from the cache.

Spec: Scheduler.tla: Reject handler (release, error call node, synchronous rejection of collapsed
twins, one reject event per parent, wf = err at the root), invariant NoErrorCached (the single
reduction table never holds a failing call) and Deterministic (a run fails iff the reference
evaluation fails) over all schedules and multi-run plans (run, run again, edit the failing task, run).
Sched_Contract "errors" clauses on recorded executions: the error raised by run() has the type and
message of an error raised by a task function *in the same run* (so it was executed again, not
replayed), every failing job is recorded FAILED, a run whose reference evaluation fails never returns
a value.
"""

from __future__ import annotations

from ..core import Ctx
from .. import schedlab

META = {
    "level": "model_checking",
    "level_text": "TLC: NoErrorCached / Deterministic over all schedules and plans with failing leaves at "
                  "depth 1-2, failing twins, second executions on the same backend and an edit that "
                  "repairs the failing task; recorded executions validated by TLC against the errors "
                  "clauses of the contract.",
    "level_note": "Errors handled by catch are outside this property (the statement conditions on 'no "
                  "enclosing catch'); the program grammar has no catch.",
    "technique": "explicit TLA+ as-built scheduler model + TLC invariants; contract trace validation of "
                 "driven executions",
    "rule": "a case is (program, plan, complete schedule); distinct by program and choice sequence; "
            "non-trivial = some task function raised during the history",
}

ON = ["errors", "determ"]


def _corrupt(t: dict) -> bool:
    # the error surfaced by run() is not one a task raised in this run (i.e. it was replayed)
    end = t["evs"][-1] if t["evs"] else {}
    fails = [e for e in t["evs"] if e["ev"] == "finish" and e["ok"] == 0]
    if end.get("outcome") == "error" and end.get("etype") != "SchedulerError" and fails:
        for e in fails:
            e["ok"] = 1
        return True
    return False


def run(ctx: Ctx) -> None:
    ctx.assume("task functions are deterministic", "no catch / catch_all around the failing call")
    r = schedlab.suite(ctx, ON, n_random_progs=ctx.pick(4, 30), n_sim=ctx.pick(80, 1500),
                       n_random_hist=ctx.pick(40, 800), corrupt=_corrupt, tag="c12")
    nerr = sum(1 for t in r["traces"] if t["evs"] and t["evs"][-1].get("outcome") == "error")
    ctx.note("error_runs_observed", nerr)
    ctx.require(nerr >= 5, f"too few failing executions explored ({nerr}): the check would be vacuous")


def replay(ctx: Ctx, rec: dict) -> None:
    schedlab.replay_record(ctx, rec, ON)
