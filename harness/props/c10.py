"""
C10  Remote-executor monitors never lose a submitted job.

Spec: spec/conc/Monitor.tla (PlusCal): scheduler-side process (insert into the first container,
`_start`: test flag / thread liveness, set flag, spawn), monitor incarnations (loop test, poll,
pop + report, sleep; exit path with separate labels for "loop test false" and "flag cleared"),
the arrayer / Glue submission thread in between, the remote environment.  Constants select the
variant (docker, batch, k8s, gcp, glue).  Named deviations: DevExitWindow (all five), DevPopGap
(Glue).  TLC: with the deviations repaired, QuiescentAllReported and liveness hold for every
variant; as built both fail.

Binding: the real executor classes, their cloud / container API replaced by module-level fakes
that complete jobs, a fake scheduler recording done_job / reject_job, all under
harness/threadctl.py.
  spec -> code: TLC's counterexamples are replayed by label -> source-line anchors computed from
                the current tree;
  code -> spec: bounded-pre-emption enumeration and seeded random schedules, every recorded
                execution validated by TLC against the contract-level spec Monitor_Trace.tla.
"""

from __future__ import annotations

import ast
import copy
import logging
import os
import random
import traceback
import types
from pathlib import Path
from typing import Any, Callable, Optional

from .. import threadctl as tc
from ..conc import (Anchors, TLCPool, any_matcher, cex_labels, expect_temporal_violation, kind_matcher,
                    line_matcher, validate_traces)
from ..core import Ctx, MachineryError
from ..tlc import expect_clean, expect_violation

META = {
    "level": "model_checking",
    "level_text": "TLC checks, for the five executor variants of the as-built PlusCal model, that at "
                  "quiescence no submitted job is unreported and that every job is eventually reported "
                  "(fairness), with the documented exit-window / popleft-gap deviations repaired, and "
                  "that the as-built variants fail exactly through them; the real executor classes run "
                  "with in-process fakes under a deterministic thread controller on TLC's "
                  "counterexample schedules, on all schedules with a bounded number of pre-emptions and "
                  "on seeded random schedules, and every recorded execution is validated by TLC against "
                  "the contract-level trace spec.",
    "level_note": "Pre-emption at source-line granularity inside the executor modules (and "
                  "job_array.py); cloud / container APIs are in-process fakes that complete every job; "
                  "2-3 jobs per execution; virtual time; the arrayer is abstracted to take/put/decrement "
                  "in the model (the real JobArrayer runs in the binding).",
    "technique": "PlusCal/TLA+ as-built model with named deviations, TLC exhaustive + liveness; "
                 "spec->code counterexample replay by source anchors; code->spec contract-level trace "
                 "validation by TLC of controlled executions (bounded pre-emption + random)",
    "rule": "a case is one controlled execution (executor, scenario, schedule); distinct = distinct "
            "(executor, scenario, schedule); non-trivial = a monitor thread ran between two submissions "
            "or some thread was pre-empted, and at least one job was reported",
}

INTERVAL = 1.0
MON = "_monitor"


# ------------------------------------------------------------------------------------------ fakes
class Remote:
    """In-process stand-in for the container / cloud service: every submitted job completes
    (after `delay` status polls)."""

    def __init__(self, delay: int = 0):
        self.delay = delay
        self.jobs: dict[str, Any] = {}
        self.polls: dict[str, int] = {}
        self.n = 0

    def submit(self, job, prefix: str = "r") -> str:
        self.n += 1
        rid = f"{prefix}-{job.id}"
        self.jobs[rid] = job
        self.polls[rid] = 0
        return rid

    def finished(self, rid: str) -> bool:
        self.polls[rid] = self.polls.get(rid, 0) + 1
        return self.polls[rid] > self.delay


class FakeScheduler:
    def __init__(self, rec: Callable, configdir: str):
        self.rec = rec
        self.logger = types.SimpleNamespace(level=logging.INFO)
        self.config = types.SimpleNamespace(configdir=configdir)

    def log(self, *a, **k):
        pass

    def done_job(self, job, result, job_tags=None):
        self.rec("done", job, None)

    def reject_job(self, job, error=None, error_traceback=None, job_tags=None):
        self.rec("reject", job, error)

    def add_job_tags(self, job, tags):
        pass


_TASKS: dict[str, Any] = {}


def make_jobs(n: int) -> list:
    from redun import task
    from redun.scheduler import Job

    if not _TASKS:
        @task(namespace="verif_c10", name="t1")
        def t1(x):
            return x

        _TASKS["t1"] = t1
    jobs = []
    for k in range(1, n + 1):
        j = Job(_TASKS["t1"], _TASKS["t1"](k))
        j.args = ((k,), {})
        j.id = f"job{k}"
        j.eval_hash = f"evalhash{k}"
        jobs.append(j)
    return jobs


# ------------------------------------------------------------------------------------------ adapters
class Adapter:
    """One executor under test: which modules are controlled, how it is built, which fakes."""

    name = ""
    variant = ""
    cls_name = ""
    module = ""
    extra_modules: list[str] = []
    only_funcs: set[str] = set()
    start_test_rx = ""
    stage_role: Optional[str] = None
    ARR_FUNCS = {"add_job", "start", "_monitor_stale_jobs", "get_stale_descrs", "submit_pending_jobs"}

    def yield_lines(self) -> dict[str, set[int]]:
        """functions in which only the listed lines are pre-emption points"""
        return {}

    def __init__(self):
        import importlib

        self.mod = importlib.import_module(self.module)
        self.extra = [importlib.import_module(m) for m in self.extra_modules]
        self.cls = getattr(self.mod, self.cls_name, None)
        if self.cls is None:
            raise MachineryError(f"{self.module}.{self.cls_name} is gone")
        for f in ("_start", "_monitor", "stop", "submit"):
            if not hasattr(self.cls, f):
                raise MachineryError(f"{self.cls_name}.{f} is gone: the C10 binding needs updating")
        self.file = self.mod.__file__
        self.base = self.file.rsplit("/", 1)[-1]
        a = self.anch = Anchors(self.file, self.cls_name)
        self.start_test = a.lines("_start", self.start_test_rx)
        # the exit window of the monitor: after its while loop, and everything it runs in stop()
        self.while_line, self.while_end = self._while_span("_monitor")
        self.match: dict[str, tuple[str, Callable]] = {}
        self.build_anchors(a)
        self.missing = sorted(set(a.missing))

    def _while_span(self, func: str) -> tuple[int, int]:
        tree = ast.parse(Path(self.file).read_text())
        for c in ast.walk(tree):
            if isinstance(c, ast.ClassDef) and c.name == self.cls_name:
                for f in c.body:
                    if isinstance(f, ast.FunctionDef) and f.name == func:
                        ws = [w for w in ast.walk(f) if isinstance(w, ast.While)]
                        if ws:
                            w = min(ws, key=lambda x: x.lineno)
                            return w.lineno, w.end_lineno or w.lineno
        raise MachineryError(f"no while loop found in {self.cls_name}.{func}")

    def L(self, func: str, rx: str, kind: str = "line"):
        return line_matcher(self.base, self.anch.lines(func, rx), kind)

    def in_exit_window(self, role: str, loc: tuple) -> bool:
        """Is a monitor thread parked at `loc` between 'loop test false' and its end?"""
        if role != MON or not loc:
            return False
        if loc[0] == "line":
            if loc[3] == "_monitor" and loc[1] == self.base:
                return loc[2] > self.while_end
            return loc[3] == "stop"
        if loc[0] in ("join", "join-timed"):
            return loc[-1] == "stop"
        return False

    # to be provided by subclasses
    def build_anchors(self, a: Anchors) -> None:
        raise NotImplementedError

    def files(self) -> list[str]:
        return [self.file] + [m.__file__ for m in self.extra]

    def patches(self, env: dict) -> list[tuple[Any, str, Any]]:
        raise NotImplementedError

    def build(self, env: dict):
        raise NotImplementedError

    def key(self, kind: str) -> str:
        return f"{self.name}-{kind}"


class DockerAdapter(Adapter):
    name = "docker"
    variant = "docker"
    module = "redun.executors.docker"
    cls_name = "DockerExecutor"
    only_funcs = {"_start", "stop", "_monitor", "_process_job_status"}
    start_test_rx = r"if not self\._is_running"

    def yield_lines(self):
        return {"_submit": self.anch.lines("_submit", r"self\._pending_jobs\[.*\]\s*=\s*job")}

    def build_anchors(self, a: Anchors) -> None:
        L = self.L
        self.match = {
            "c_insert": ("main", L("_submit", r"self\._pending_jobs\[.*\]\s*=\s*job")),
            "c_test": ("main", L("_start", self.start_test_rx)),
            "c_set": ("main", L("_start", r"self\._is_running\s*=\s*True")),
            "c_spawn": ("main", L("_start", r"self\._thread\.start\(\)")),
            "m_idle": (MON, kind_matcher("start")),
            "m_test": (MON, L("_monitor", r"while self\._is_running")),
            "m_poll": (MON, L("_monitor", r"jobs\s*=\s*iter_job_status")),
            "m_proc": (MON, L("_process_job_status", r"self\._pending_jobs\.pop\(")),
            "m_sleep": (MON, kind_matcher("sleep")),
            "m_exit": (MON, L("_monitor", r"Shutting down executor")),
            "m_clear": (MON, L("stop", r"self\._is_running\s*=\s*False")),
        }

    def patches(self, env):
        remote: Remote = env["remote"]
        m = self.mod

        def submit_task(image, scratch_prefix, job, a_task, args=(), kwargs={}, job_options={}, code_file=None):
            return {"jobId": remote.submit(job, "c"), "redun_job_id": job.id}

        def submit_command(image, scratch_prefix, job, command, job_options={}):
            return {"jobId": remote.submit(job, "c"), "redun_job_id": job.id}

        def iter_job_status(scratch_prefix, job_id2job):
            for rid in list(job_id2job):
                if remote.finished(rid):
                    yield {"jobId": rid, "status": m.SUCCEEDED, "logs": ""}

        def parse_job_result(scratch_prefix, job):
            return (job.id + ":result", True)

        return [(m, "submit_task", submit_task), (m, "submit_command", submit_command),
                (m, "iter_job_status", iter_job_status), (m, "parse_job_result", parse_job_result)]

    def build(self, env):
        from redun.config import create_config_section

        cfg = create_config_section({"image": "img", "scratch": str(env["scratch"]),
                                     "job_monitor_interval": str(INTERVAL), "code_package": "False"})
        return self.cls("docker", env["sched"], config=cfg)


class _NS(types.SimpleNamespace):
    pass


class ArrayerAdapter(Adapter):
    """Common part of the three arrayer-based executors (job -> JobArrayer -> pending map)."""

    extra_modules = ["redun.job_array"]
    stage_role = "_monitor_stale_jobs"
    pending_attr = ""
    insert_func = "_submit_single_job"
    insert_rx = ""
    poll_rx = ""
    pop_func = ""
    pop_rx = ""
    flag_set_rx = r"self\.is_running\s*=\s*True"
    flag_clear_rx = r"self\.is_running\s*=\s*False"

    def yield_lines(self):
        return {self.insert_func: self.anch.lines(self.insert_func, self.insert_rx)}

    def build_anchors(self, a: Anchors) -> None:
        import redun.job_array as ja

        L = self.L
        ja_file = ja.__file__
        jb = ja_file.rsplit("/", 1)[-1]
        ja_a = Anchors(ja_file, "JobArrayer")
        J = lambda f, rx, kind="line": line_matcher(jb, ja_a.lines(f, rx), kind)  # noqa: E731
        self.match = {
            "c_insert": ("main", J("add_job", r"self\.pending\[descr\]\.append\(job\)")),
            "c_arrstart": ("main", J("start", r"_monitor_thread\.start\(\)|^\s*return\s*$")),
            "c_test": ("main", L("_start", self.start_test_rx)),
            "c_set": ("main", L("_start", self.flag_set_rx)),
            "c_spawn": ("main", L("_start", r"self\._thread\.start\(\)")),
            "m_idle": (MON, kind_matcher("start")),
            "m_test": (MON, L("_monitor", r"while self\.is_running")),
            "m_poll": (MON, L("_monitor", self.poll_rx)),
            "m_proc": (MON, L(self.pop_func, self.pop_rx)),
            "m_sleep": (MON, kind_matcher("sleep")),
            "m_exit": (MON, L("_monitor", r"Shutting down executor")),
            "m_stoparr": (MON, J("stop", r"_exit_flag\.set\(\)")),
            "m_joinarr": (MON, J("stop", r"_monitor_thread\.join\(\)|_monitor_thread\.is_alive\(\)")),
            "m_clear": (MON, L("stop", self.flag_clear_rx)),
            "t_idle": (self.stage_role, kind_matcher("start")),
            "t_wait": (self.stage_role, kind_matcher("event-wait-timed")),
            "t_take": (self.stage_role, J("submit_pending_jobs", r"self\.pending\.pop\(descr\)")),
            "t_put": (self.stage_role, L(self.insert_func, self.insert_rx)),
            "t_dec": (self.stage_role, J("submit_pending_jobs", r"self\.num_pending\s*-=")),
        }
        a.missing.extend(ja_a.missing)


class BatchAdapter(ArrayerAdapter):
    name = "aws_batch"
    variant = "batch"
    module = "redun.executors.aws_batch"
    cls_name = "AWSBatchExecutor"
    only_funcs = {"_start", "stop", "_monitor", "_process_job_status", "_submit_jobs"} | Adapter.ARR_FUNCS
    start_test_rx = r"if not self\.is_running"
    insert_rx = r"self\.pending_batch_jobs\[batch_job_id\]\s*=\s*job"
    poll_rx = r"jobs\s*=\s*iter_batch_job_status"
    pop_func = "_process_job_status"
    pop_rx = r"self\.pending_batch_jobs\.pop\("

    def patches(self, env):
        import redun.executors.aws_utils as au

        remote: Remote = env["remote"]
        m = self.mod

        def submit_task(image, queue, s3_scratch_prefix, job, a_task, args=(), kwargs={}, job_options={},
                        array_uuid=None, array_size=0, code_file=None, aws_region=None):
            return {"jobId": remote.submit(job, "b"), "jobName": "redun-" + job.id}

        def iter_batch_job_status(job_ids, pending_truncate=10, aws_region=None):
            for rid in list(job_ids):
                if remote.finished(rid):
                    yield {"jobId": rid, "status": m.SUCCEEDED}

        return [(au, "get_aws_user", lambda aws_region=None: "alice"),
                (m, "submit_task", submit_task), (m, "submit_command", submit_task),
                (m, "iter_batch_job_status", iter_batch_job_status),
                (m, "get_job_log_stream", lambda job, aws_region=None: None),
                (m, "aws_describe_jobs", lambda *a, **k: iter([])),
                (m, "parse_job_result", lambda prefix, job: (job.id + ":result", True))]

    def build(self, env):
        from redun.config import create_config_section

        cfg = create_config_section({"image": "img", "queue": "q", "s3_scratch": str(env["scratch"]),
                                     "job_monitor_interval": str(INTERVAL), "job_stale_time": str(0.5 * INTERVAL),
                                     "code_package": "False", "min_array_size": "50", "aws_region": "us-west-2"})
        ex = self.cls("batch", env["sched"], cfg)
        ex.get_jobs = lambda statuses=None: iter([])
        ex.get_array_child_jobs = lambda *a, **k: []
        return ex


class K8SAdapter(ArrayerAdapter):
    name = "k8s"
    variant = "k8s"
    module = "redun.executors.k8s"
    cls_name = "K8SExecutor"
    only_funcs = {"_start", "stop", "_monitor", "_process_k8s_job_status", "_submit_jobs"} | Adapter.ARR_FUNCS
    start_test_rx = r"if self\.is_running"
    insert_rx = r"self\.pending_k8s_jobs\[job_name\]\s*=\s*job"
    poll_rx = r"jobs\s*=\s*k8s_describe_jobs"
    pop_func = "_process_k8s_job_status"
    pop_rx = r"self\.pending_k8s_jobs\.pop\("

    def patches(self, env):
        import redun.executors.k8s_utils as ku

        remote: Remote = env["remote"]
        m = self.mod

        class FakeClient:
            core = batch = None

            def version(self):
                return (1, 27)

        def submit_task(k8s_client, image, namespace, scratch_prefix, job, a_task, args=(), kwargs={},
                        job_options={}, code_file=None, secret_name=None, **kw):
            rid = remote.submit(job, "k")
            return _NS(metadata=_NS(uid="uid-" + rid, name=rid))

        def k8s_describe_jobs(k8s_client, job_names, namespace):
            out = []
            for rid in list(job_names):
                if remote.finished(rid):
                    out.append(_NS(metadata=_NS(uid="uid-" + rid, name=rid), spec=_NS(parallelism=1),
                                   status=_NS(succeeded=1, failed=None, conditions=None, completed_indexes=None)))
            return out

        return [(ku, "K8SClient", FakeClient), (ku, "delete_job", lambda *a, **k: None),
                (ku, "create_namespace", lambda *a, **k: None), (ku, "create_k8s_secret", lambda *a, **k: None),
                (m, "submit_task", submit_task), (m, "submit_command", submit_task),
                (m, "k8s_describe_jobs", k8s_describe_jobs), (m, "get_k8s_job_pods", lambda core, name: []),
                (m, "parse_job_result", lambda prefix, job: (job.id + ":result", True))]

    def build(self, env):
        from redun.config import create_config_section

        cfg = create_config_section({"type": "k8s", "image": "img", "scratch": str(env["scratch"]),
                                     "job_monitor_interval": str(INTERVAL), "job_stale_time": str(0.5 * INTERVAL),
                                     "code_package": "False", "min_array_size": "50"})
        ex = self.cls("k8s", env["sched"], cfg)
        ex.get_jobs = lambda: iter([])
        return ex


class GCPAdapter(ArrayerAdapter):
    name = "gcp_batch"
    variant = "gcp"
    module = "redun.executors.gcp_batch"
    cls_name = "GCPBatchExecutor"
    only_funcs = {"_start", "stop", "_monitor", "_process_task_status", "_submit_jobs"} | Adapter.ARR_FUNCS
    start_test_rx = r"if not self\._thread or not self\._thread\.is_alive\(\)"
    insert_rx = r"self\.pending_batch_tasks\[.*\]\s*=\s*job"
    poll_rx = r"task_names\s*=\s*list\(self\.pending_batch_tasks"
    pop_func = "_process_task_status"
    pop_rx = r"self\.pending_batch_tasks\.pop\("

    def patches(self, env):
        import redun.executors.gcp_utils as gu

        remote: Remote = env["remote"]
        m = self.mod
        State = m.TaskStatus.State

        def batch_submit(client=None, job_name="", **kw):
            rid = "tg-" + job_name
            remote.polls[rid + "/tasks/0"] = 0
            return _NS(task_groups=[_NS(name=rid)], name=job_name)

        def get_task(client=None, task_name=""):
            st = State.SUCCEEDED if remote.finished(task_name) else State.RUNNING
            return _NS(name=task_name, status=_NS(state=st))

        return [(gu, "get_gcp_batch_client", lambda *a, **k: object()),
                (gu, "get_gcp_compute_client", lambda *a, **k: object()),
                (gu, "list_jobs", lambda *a, **k: []), (gu, "batch_submit", batch_submit),
                (gu, "get_compute_machine_type", lambda *a, **k: _NS(memory_mb=16384, guest_cpus=4)),
                (gu, "get_task", get_task), (m, "get_oneshot_command", lambda *a, **k: ["true"]),
                (m, "parse_job_result", lambda prefix, job: (job.id + ":result", True))]

    def build(self, env):
        from redun.config import create_config_section

        cfg = create_config_section({"image": "img", "project": "p", "region": "r",
                                     "gcs_scratch": str(env["scratch"]),
                                     "job_monitor_interval": str(INTERVAL), "job_stale_time": str(0.5 * INTERVAL),
                                     "code_package": "False", "min_array_size": "50"})
        return self.cls("gcp", env["sched"], cfg)


class GlueAdapter(Adapter):
    name = "aws_glue"
    variant = "glue"
    module = "redun.executors.aws_glue"
    cls_name = "AWSGlueExecutor"
    only_funcs = {"_start", "stop", "_monitor", "_process_job_status", "_submission_thread"}
    start_test_rx = r"if not self\._monitor_thread\.is_alive\(\)"
    stage_role = "_submission_thread"

    def yield_lines(self):
        return {"submit": self.anch.lines("submit", r"self\.pending_glue_jobs\.append\(job\)")}

    def build_anchors(self, a: Anchors) -> None:
        L = self.L
        self.pop_lines = a.lines("_submission_thread", r"self\.pending_glue_jobs\.popleft\(\)")
        self.put_lines = a.lines("_submission_thread", r"self\.running_glue_jobs\[job_id\]\s*=\s*job")
        self.while_test = a.lines("_monitor", r"while self\.is_running")
        self.match = {
            "c_insert": ("main", L("submit", r"self\.pending_glue_jobs\.append\(job\)")),
            "c_test": ("main", L("_start", r"if not self\.is_running")),
            "c_gmon": ("main", L("_start", r"if not self\._monitor_thread\.is_alive\(\)")),
            "c_gsub": ("main", L("_start", r"if not self\._submit_thread\.is_alive\(\)")),
            "m_idle": (MON, kind_matcher("start")),
            "m_test": (MON, L("_monitor", r"while self\.is_running")),
            "m_poll": (MON, L("_monitor", r"jobs\s*=\s*glue_describe_jobs")),
            "m_proc": (MON, L("_process_job_status", r"self\.running_glue_jobs\.pop\(")),
            "m_sleep": (MON, kind_matcher("sleep")),
            "m_exit": (MON, L("_monitor", r"^\s*self\.stop\(\)")),
            "m_clear": (MON, L("stop", r"self\.is_running\s*=\s*False")),
            "t_idle": (self.stage_role, kind_matcher("start")),
            "g_test": (self.stage_role, L("_submission_thread", r"while self\.is_running and self\.pending_glue_jobs")),
            "g_pop": (self.stage_role, L("_submission_thread", r"self\.pending_glue_jobs\.popleft\(\)")),
            "g_put": (self.stage_role, L("_submission_thread", r"self\.running_glue_jobs\[job_id\]\s*=\s*job")),
            "g_sleep": (self.stage_role, kind_matcher("sleep")),
        }

    def in_exit_window(self, role, loc):
        if role != MON or not loc or loc[0] != "line":
            return False
        if loc[3] == "_monitor" and loc[1] == self.base:
            return loc[2] > self.while_end
        return loc[3] == "stop"

    def classify_extra(self, run, lost, steps):
        # popleft gap: the monitor evaluated its loop test while the submission thread held a popped
        # job that was in neither container
        lo = min(self.pop_lines) if self.pop_lines else 0
        hi = max(self.put_lines) if self.put_lines else 0
        for s in steps:
            if s["role"] == MON and s["loc"][0] == "line" and s["loc"][1] == self.base and \
                    s["loc"][2] in self.while_test and s["loc"][3] == "_monitor":
                for nm, (role, loc) in s["parked"].items():
                    if role == self.stage_role and loc and loc[0] == "line" and loc[1] == self.base and \
                            loc[3] == "_submission_thread" and lo < loc[2] <= hi:
                        return self.key("popleft-gap"), (
                            "the monitor evaluated its loop test while the submission thread was between "
                            "pending_glue_jobs.popleft() and running_glue_jobs[job_id] = job (job in neither container)")
        return None

    def patches(self, env):
        import redun.executors.aws_utils as au

        remote: Remote = env["remote"]
        m = self.mod

        class _Exc1(Exception):
            pass

        class _Exc2(Exception):
            pass

        client = _NS(exceptions=_NS(ConcurrentRunsExceededException=_Exc1, ResourceNumberLimitExceededException=_Exc2))

        def submit_glue_job(job, a_task, **kw):
            return {"JobRunId": remote.submit(job, "g")}

        def glue_describe_jobs(job_ids, glue_job_name=None, aws_region=None):
            for rid in list(job_ids):
                if remote.finished(rid):
                    yield {"Id": rid, "JobRunState": "SUCCEEDED"}

        return [(au, "get_aws_client", lambda *a, **k: client), (m, "submit_glue_job", submit_glue_job),
                (m, "glue_describe_jobs", glue_describe_jobs),
                (m, "parse_job_result", lambda prefix, job: (job.id + ":result", True))]

    def build(self, env):
        from redun.config import create_config_section

        cfg = create_config_section({"s3_scratch": str(env["scratch"]), "role": "arn:role", "aws_region": "us-west-2",
                                     "job_monitor_interval": str(INTERVAL), "job_retry_interval": str(2 * INTERVAL),
                                     "code_package": "False"})
        ex = self.cls("glue", env["sched"], cfg)
        ex.glue_job_name = "gluejob"
        ex.redun_zip_location = "zip"
        ex.code_file = object()
        ex.get_jobs = lambda statuses=None: iter([])
        return ex


ADAPTERS: dict[str, type] = {"docker": DockerAdapter, "aws_batch": BatchAdapter, "k8s": K8SAdapter,
                             "gcp_batch": GCPAdapter, "aws_glue": GlueAdapter}


# ------------------------------------------------------------------------------------------ one execution
def scenario(ex: str, n: int, gaps: Optional[dict] = None, delay: int = 0) -> dict:
    return {"exec": ex, "n": n, "gaps": {str(k): v for k, v in (gaps or {}).items()}, "delay": delay}


def execute(ctx: Ctx, ad: Adapter, scn: dict, chooser, detail: bool = False) -> dict:
    n = scn["n"]
    events: list[dict] = []
    steps: list = []
    errs: list[dict] = []
    reported = [0] * (n + 1)
    jobs = make_jobs(n)
    index = {id(j): k for k, j in enumerate(jobs, 1)}
    state = {"cur": 0}

    def ev(e, j=0):
        events.append({"e": e, "j": j})

    def rec(kind, job, error):
        if job is None:
            errs.append({"type": type(error).__name__, "msg": str(error)[:200]})
            ev("error")
            return
        k = index.get(id(job), 0)
        if 0 < k <= n:
            reported[k] += 1
        ev(kind, k)

    def on_step(c, st):
        if detail:
            steps.append({"t": st.thread, "role": st.role, "loc": list(st.loc), "job": state["cur"],
                          "parked": {t.name: [t.role, list(t.loc)] for t in c.threads if t.status != "finished"}})

    files = ad.files()
    ctl = tc.Controller(files, max_steps=12000, on_step=on_step, only_funcs=ad.only_funcs or None,
                        yield_lines=ad.yield_lines(), skip_funcs={"__hash__", "__eq__", "__repr__", "__init__"})
    scratch = ctx.tmp(f"exec_{ad.name}")
    scratch.mkdir(parents=True, exist_ok=True)
    env = {"ctl": ctl, "remote": Remote(scn.get("delay", 0)), "scratch": scratch,
           "sched": FakeScheduler(rec, str(scratch))}
    mods = [ad.mod] + ad.extra
    saved = [(m, "threading", m.threading) for m in mods] + [(m, "time", m.time) for m in mods]
    patches = ad.patches(env)
    saved += [(o, a, getattr(o, a)) for o, a, _ in patches]
    try:
        for m in mods:
            m.threading, m.time = ctl.threading, ctl.time
        for o, a, v in patches:
            setattr(o, a, v)
        ex = ad.build(env)
        gaps = scn.get("gaps", {})

        def main():
            for k, job in enumerate(jobs, 1):
                state["cur"] = k
                ev("submit", k)
                ex.submit(job)
                ev("sret", k)
                g = gaps.get(str(k))
                if g:
                    ctl.time.sleep(g * INTERVAL)
                else:
                    ctl.pause("between-submits")
            state["cur"] = 0
            t_end = ctl.now + (8 + 3 * n + scn.get("delay", 0)) * INTERVAL
            ctl.wait_until(lambda: all(r >= 1 for r in reported[1:]) or ctl.now >= t_end, "all-reported")
            if not all(r >= 1 for r in reported[1:]):
                ev("timeout")
                ex.stop()

        res = ctl.run(main, chooser)
    finally:
        for o, a, v in reversed(saved):
            setattr(o, a, v)
    if res.outcome == "done":
        if not any(e["e"] == "timeout" for e in events):
            ev("quiesce")
    elif res.outcome == "deadlock" and all(b[1] == "main" and b[2][:2] == ("await", "all-reported")
                                           for b in res.blocked):
        ev("quiesce")      # every executor thread has ended; the driver waits for a report that cannot come
    else:
        ev("stuck")
    uncaught = []
    if "T0" in res.errors:
        e0 = res.errors["T0"]
        raise MachineryError(f"the driver thread failed ({ad.name}): {type(e0).__name__}: {e0}\n" + "".join(
            traceback.format_exception(type(e0), e0, e0.__traceback__)[-6:]))
    for name, exc in res.errors.items():
        # an exception that escaped a thread's top level: not part of C10's predicate by itself (a
        # job it strands shows up at quiescence); recorded as a side observation
        role = next((t.role for t in ctl.threads if t.name == name), "?")
        uncaught.append({"thread": name, "role": role, "type": type(exc).__name__, "msg": str(exc)[:200]})
    out = {"_res": res, "events": events, "schedule": res.schedule, "outcome": res.outcome, "errs": errs,
           "npre": sum(s.cost for s in res.steps), "nrep": sum(reported), "uncaught": uncaught,
           "interleaved": _interleaved(res), "blocked": [[b[0], b[1], list(map(str, b[2]))] for b in res.blocked]}
    if detail:
        out["steps"] = steps
        out["final"] = _final_state(ex)
    return out


def _final_state(ex) -> dict:
    d = {}
    for a in ("_is_running", "is_running", "_pending_jobs", "pending_batch_jobs", "pending_k8s_jobs",
              "pending_batch_tasks", "pending_glue_jobs", "running_glue_jobs"):
        if hasattr(ex, a):
            v = getattr(ex, a)
            d[a] = v if isinstance(v, bool) else len(v)
    arr = getattr(ex, "arrayer", None)
    if arr is not None:
        d["arrayer.num_pending"] = getattr(arr, "num_pending", None)
    return d


def _interleaved(res: tc.Result) -> bool:
    """Did another thread run between the first and the last step of the driver inside submit()?"""
    drv = [i for i, s in enumerate(res.steps) if s.thread == "T0" and s.loc and s.loc[0] == "line"]
    if not drv:
        return False
    return any(s.thread != "T0" for s in res.steps[drv[0]:drv[-1]])


def to_trace(scn: dict, events: list) -> dict:
    return {"n": scn["n"], "ev": events}


TRACE_CFG = "SPECIFICATION TSpec\nINVARIANT AtMostOnce\nINVARIANT OnlyCalled\nCHECK_DEADLOCK FALSE\n"
TRACE_MOD = "conc/Monitor_Trace.tla"


# ------------------------------------------------------------------------------------------ classification
def classify(ad: Adapter, run: dict, pos: int) -> tuple[Optional[str], str]:
    evs = run["events"]
    e = evs[pos - 1] if 0 < pos <= len(evs) else {"e": "?", "j": 0}
    steps = run.get("steps", [])
    if e["e"] in ("quiesce", "timeout"):
        rep = {}
        ret = set()
        for x in evs[:pos]:
            if x["e"] in ("done", "reject"):
                rep[x["j"]] = rep.get(x["j"], 0) + 1
            elif x["e"] == "sret":
                ret.add(x["j"])
        lost = sorted(j for j in ret if rep.get(j, 0) == 0)
        what = (f"{ad.cls_name}: job(s) {lost} submitted but never reported (done_job/reject_job); "
                f"{'no executor thread is left' if e['e'] == 'quiesce' else 'threads still polling after the horizon'}; "
                f"final state {run.get('final')}")
        # the documented race: `_start` evaluated its test for a lost job while a monitor thread was
        # between "loop test false" and its end
        for s in steps:
            if s["t"] == "T0" and s["loc"][0] == "line" and s["loc"][1] == ad.base and \
                    s["loc"][2] in ad.start_test and s["loc"][3] == "_start" and s["job"] in lost:
                if any(ad.in_exit_window(role, tuple(loc)) for nm, (role, loc) in s["parked"].items() if nm != "T0"):
                    return ad.key("exit-window"), what + (
                        f" -- _start() tested its start condition for job {s['job']} while a monitor thread "
                        "had already left its loop but not yet ended (exit window)")
        extra = ad.classify_extra(run, lost, steps) if lost else None
        if extra:
            return extra[0], what + " -- " + extra[1]
        return None, what
    if e["e"] in ("done", "reject"):
        return None, f"{ad.cls_name}: job {e['j']} reported twice or before submission"
    if e["e"] == "stuck":
        return None, f"{ad.cls_name}: execution did not finish: {run['outcome']} blocked={run['blocked']} errs={run['errs']}"
    return None, f"{ad.cls_name}: event {e} not acceptable"


Adapter.classify_extra = lambda self, run, lost, steps: None  # type: ignore[attr-defined]


# ------------------------------------------------------------------------------------------ collector
class Collector:
    def __init__(self, ctx: Ctx):
        self.ctx = ctx
        self.runs: list[tuple[Adapter, dict, dict, str]] = []
        self.uncaught: dict[str, dict] = {}
        self.loud: dict[str, int] = {}

    def add(self, ad: Adapter, scn: dict, run: dict, source: str) -> None:
        run.pop("_res", None)
        self.runs.append((ad, scn, run, source))
        self.ctx.count_eval()
        if run["nrep"] and (run["npre"] or run["interleaved"]):
            self.ctx.distinct([ad.name, scn, run["schedule"]])
        for er in run["errs"]:
            k = f"{ad.name}: reject_job(None, {er['type']}: {er['msg'][:60]})"
            self.loud[k] = self.loud.get(k, 0) + 1
        for u in run["uncaught"]:
            k = f"{ad.name}: {u['role']}: {u['type']}: {u['msg']}"
            d = self.uncaught.setdefault(k, {"count": 0, "scenario": scn, "schedule": "".join(
                x[1:] + "," for x in run["schedule"])})
            d["count"] += 1

    def validate(self, what: str) -> dict:
        ctx = self.ctx
        traces = [to_trace(s, r["events"]) for _, s, r, _ in self.runs]
        cands = [(s, r["events"]) for _, s, r, _ in self.runs
                 if not r["errs"] and r["npre"] == 0 and r["events"] and r["events"][-1]["e"] == "quiesce"
                 and any(e["e"] == "done" for e in r["events"])][:4]
        E = lambda e, j=0: {"e": e, "j": j}  # noqa: E731
        cands.append(({"n": 1}, [E("submit", 1), E("sret", 1), E("done", 1), E("quiesce")]))
        nreal = len(traces)
        ctl_at = []
        for s0, ev0 in cands:
            kd = next(i for i, e in enumerate(ev0) if e["e"] == "done")
            dropped = ev0[:kd] + ev0[kd + 1:]
            doubled = ev0[:kd + 1] + [ev0[kd]] + ev0[kd + 1:]
            ctl_at.append((len(traces), kd, len(dropped)))
            traces += [to_trace(s0, ev0), to_trace(s0, dropped), to_trace(s0, doubled)]
        verdicts, _ = validate_traces(ctx, TRACE_MOD, TRACE_CFG, traces, what)
        pick = next((c for c in ctl_at if verdicts[c[0] + 1][0]), None)
        ctx.require(pick is not None, "not even the hand-written base trace of the negative controls is accepted")
        at, kd, ndrop = pick
        ctx.note("negative_control_base", "recorded execution" if at != ctl_at[-1][0] else "hand-written trace")
        ctx.negative_control(not verdicts[at + 2][0] and verdicts[at + 2][1] == ndrop,
                             "recorded execution with one done_job event dropped must be rejected at quiescence")
        ctx.negative_control(not verdicts[at + 3][0] and verdicts[at + 3][1] == kd + 2,
                             "recorded execution with one done_job event duplicated must be rejected at the duplicate")
        stats: dict = {"accepted": 0, "rejected": 0, "by_key": {}}
        for tid in range(1, nreal + 1):
            ad, scn, run, source = self.runs[tid - 1]
            acc, pos = verdicts[tid]
            ctx.count_impl_trace()
            if acc:
                stats["accepted"] += 1
            else:
                stats["rejected"] += 1
                report(ctx, ad, scn, run, source, pos, stats)
        self.runs = []
        return stats


_REPORTED: dict[str, int] = {}


def report(ctx: Ctx, ad: Adapter, scn: dict, run: dict, source: str, pos: int, stats: dict) -> None:
    det = execute(ctx, ad, scn, tc.ReplayChooser(run["schedule"]), detail=True)
    ctx.require(det["events"] == run["events"],
                "re-execution of a recorded schedule produced different events: controller not deterministic")
    key, what = classify(ad, det, pos)
    k = key or f"<none:{ad.name}>"
    stats["by_key"][k] = stats["by_key"].get(k, 0) + 1
    _REPORTED[k] = _REPORTED.get(k, 0) + 1
    if _REPORTED[k] > (1 if key else 3):
        return
    ctx.violation(f"{what} [scenario {scn}, source={source}]",
                  {"scenario": scn, "schedule": run["schedule"], "source": source, "events": det["events"],
                   "rejected_at_event": pos, "errors": det["errs"], "final_state": det.get("final"),
                   "steps": [[s["t"], s["role"], s["loc"], s["job"]] for s in det["steps"]]},
                  key=key)


# ------------------------------------------------------------------------------------------ model
def model_cfg(n: int, variant: str, k: int, instant: bool, dev: bool, gap: bool, invs: list[str],
              props: tuple = ()) -> str:
    B = lambda b: "TRUE" if b else "FALSE"  # noqa: E731
    s = (f"SPECIFICATION Spec\nCONSTANTS\n N = {n}\n Variant = \"{variant}\"\n K = {k}\n Instant = {B(instant)}\n"
         f" DevExitWindow = {B(dev)}\n DevPopGap = {B(gap)}\n")
    for i in invs:
        s += f"INVARIANT {i}\n"
    for p in props:
        s += f"PROPERTY {p}\n"
    return s


INV = ["TypeOK", "AtMostOnce", "QuiescentAllReported"]
# (enumerated schedules, random schedules) per scenario: (quick, thorough); sized by the cost of one
# execution (docker ~10 ms ... aws_batch ~60 ms)
BUDGET = {"docker": ((100, 50), (700, 300)), "aws_glue": ((70, 40), (400, 200)), "k8s": ((60, 30), (300, 150)),
          "gcp_batch": ((40, 20), (160, 80)), "aws_batch": ((40, 20), (160, 80))}


def run(ctx: Ctx) -> None:
    ctx.assume("pre-emption only at source-line boundaries of the executor modules and job_array.py; "
               "fakes, scheduler callbacks and everything else run atomically with the calling line",
               "one scheduler thread calls submit()",
               "remote jobs always complete (fakes); virtual time",
               "CPython with the GIL: sequentially consistent memory")
    _REPORTED.clear()
    # all five executors in both tiers (the quick tier used to run docker and aws_glue only and missed a change in
    # the aws_batch monitor); the tiers differ in scenarios and schedule budgets
    names = list(ADAPTERS)
    if os.environ.get("VERIF_C10_EXECUTORS"):     # developer switch: e.g. VERIF_C10_EXECUTORS=aws_batch,k8s
        names = os.environ["VERIF_C10_EXECUTORS"].split(",")
    names = [nm for nm in names if nm in ADAPTERS]
    ads = {nm: ADAPTERS[nm]() for nm in names}
    ctx.note("executors", names)
    ctx.note("anchors_missing", {nm: ad.missing for nm, ad in ads.items() if ad.missing})

    # ---- 1. model checking (side by side with the executions) ------------------------------------
    pool = TLCPool(ctx, parallel=ctx.pick(3, 4))
    W = ctx.pick(2, 4)
    M = "conc/Monitor.tla"
    kw = dict(deadlock=False, timeout=2400)
    variants = sorted({ad.variant for ad in ads.values()}) if ctx.quick else ["docker", "batch", "k8s", "gcp", "glue"]
    cex_names = []
    for v in variants:
        devs = [("exit-window", True, False)] + ([("popleft-gap", False, True)] if v == "glue" else [])
        for dn, dev, gap in devs:
            nm = f"cex:{v}:{dn}"
            pool.submit(nm, M, model_cfg(2, v, 3, True, dev, gap, ["QuiescentAllReported"]), workers=1, **kw)
            cex_names.append((nm, v, dn))
    clean = []
    for v in variants:
        for (n, inst) in ([(2, True)] if ctx.quick else [(2, True), (3, False)]):
            nm = f"repaired {v} N={n} instant={inst}"
            pool.submit(nm, M, model_cfg(n, v, 3, inst, False, False, INV, ("Live",)), workers=W, **kw)
            clean.append(nm)
    live_ctl = []
    for v in ([] if ctx.quick else variants):     # liveness control of the as-built model: thorough tier
        nm = f"as-built {v}: liveness control"
        pool.submit(nm, M, model_cfg(2, v, 3, True, True, True, ["TypeOK", "AtMostOnce"], ("Live",)), workers=1, **kw)
        live_ctl.append(nm)
    col = Collector(ctx)
    phase = {"cex_models": round(ctx.elapsed(), 1)}
    # ---- 3. code -> spec: bounded pre-emption enumeration + seeded random schedules ---------------
    bound = ctx.pick(2, 2)
    explored = {}
    for nm, ad in ads.items():
        scns = [scenario(nm, 2), scenario(nm, 2, gaps={1: 2}), scenario(nm, 3, gaps={1: 1, 2: 2})]
        if ctx.quick and nm != "docker":
            scns = scns[:2]
        if not ctx.quick:
            scns += [scenario(nm, 2, delay=1), scenario(nm, 3, gaps={2: 3}, delay=1)]
        max_runs, nrand = BUDGET[nm][0 if ctx.quick else 1]
        for si, scn in enumerate(scns):
            cnt = 0
            for _p, _r in tc.explore(lambda p, ad=ad, scn=scn: _exec_res(ctx, ad, scn, p, col), bound, max_runs,
                                     free_bound=ctx.pick(2, 3)):
                cnt += 1
            explored[f"{nm}:{si}:n={scn['n']}"] = cnt
            for _ in range(nrand):
                seed = ctx.rng.randrange(1 << 30)
                runx = execute(ctx, ad, scn, tc.RandomChooser(random.Random(seed),
                                                              stay=ctx.rng.choice([0.5, 0.7, 0.85])))
                col.add(ad, scn, runx, f"random:{seed}")
    ctx.note("schedules_enumerated", explored)
    ctx.note("preemption_bound", bound)
    cexs = {}
    for nm, v, dn in cex_names:
        r = pool.result(nm)
        ctx.add_tlc(expect_violation(r, "QuiescentAllReported", f"Monitor.tla {v} as built ({dn})"))
        labels = cex_labels(r)
        ctx.require(len(labels) > 5, f"could not read the counterexample {nm}")
        cexs[(v, dn)] = labels
    ctx.note("model_counterexamples", {f"{v}:{dn}": " ".join(lb) for (v, dn), lb in cexs.items()})


    # ---- 2. spec -> code: replay TLC's counterexamples by anchors --------------------------------
    replayed = {}
    for nm, ad in ads.items():
        for (v, dn), labels in cexs.items():
            if v != ad.variant:
                continue
            dirs = [ad.match[lb] for lb in labels if lb in ad.match]
            ch = tc.DirectedChooser(dirs)
            scn = scenario(nm, 2)
            runx = execute(ctx, ad, scn, ch)
            replayed[f"{nm}:{dn}"] = {"directives_followed": ch.k, "of": len(dirs),
                                      "last_event": runx["events"][-1]["e"], "reports": runx["nrep"]}
            col.add(ad, scn, runx, f"tlc-counterexample:{v}:{dn}")
    ctx.note("counterexample_replay", replayed)

    okr = next((r for _, s, r, src in col.runs if not r["errs"] and r["npre"] > 0 and r["events"][-1]["e"] == "quiesce"), None)
    if okr:
        ctx.sample({"source": "enumeration", "schedule": "".join(s[1] for s in okr["schedule"]),
                    "events": okr["events"]})
    ctx.sample({"source": "tlc-counterexample", "labels": next(iter(cexs.values()))})

    phase["executions"] = round(ctx.elapsed(), 1)
    for nm in clean:
        ctx.add_tlc(expect_clean(pool.result(nm), "Monitor.tla " + nm))
    for nm in live_ctl:
        ctx.add_tlc(expect_temporal_violation(pool.result(nm), "Live", "Monitor.tla " + nm))
    pool.close()
    ctx.note("model_configs_clean", clean)
    phase["models"] = round(ctx.elapsed(), 1)
    stats = col.validate("all")
    phase["trace_validation"] = round(ctx.elapsed(), 1)
    ctx.note("phase_elapsed_s", phase)
    ctx.note("trace_verdicts", stats)
    ctx.note("uncaught_thread_exceptions_not_losing_jobs", col.uncaught)
    ctx.note("scheduler_level_errors_reported", col.loud)
    missing = {nm: ad.missing for nm, ad in ads.items() if ad.missing}
    if missing and not ctx.violations:
        raise MachineryError(f"source anchors not found: {missing}; the spec->code replay is (partly) blind, "
                             "update the anchors in harness/props/c10.py")


def _exec_res(ctx: Ctx, ad: Adapter, scn: dict, prefix: list[str], col: Collector) -> tc.Result:
    runx = execute(ctx, ad, scn, tc.ReplayChooser(prefix))
    res = runx["_res"]
    col.add(ad, scn, runx, "enumeration")
    return res


def replay(ctx: Ctx, rec: dict) -> None:
    r = rec["replay"]
    if "schedule" not in r:
        run(ctx)
        return
    scn = r["scenario"]
    ad = ADAPTERS[scn["exec"]]()
    runx = execute(ctx, ad, scn, tc.ReplayChooser(r["schedule"]))
    verdicts, _ = validate_traces(ctx, TRACE_MOD, TRACE_CFG, [to_trace(scn, runx["events"])], "replay")
    acc, pos = verdicts[1]
    if not acc:
        report(ctx, ad, scn, runx, "replay", pos, {"by_key": {}})
