"""
C16  Value hashes depend only on the value.

Spec: spec/common/ValueHash.tla.  A value tree (Values.tla) has many ORDERINGS: one per choice of
iteration order for each of its set / frozenset nodes; hash seed and insertion order are exactly
this choice.  Ser(o, top) transcribes what redun hashes (pickle in iteration order; only a `set`
that IS the hashed value is sorted first, value.py class Set).  Law: Ser is the same for all
orderings.  TLC (ValueHash_Gen.tla) shows on every tree of the bounded universe that the law
holds exactly outside three named deviation classes (frozenset-toplevel, frozenset-nested,
set-nested-in-container) and that every value inside one has two serialisations; top-level sets,
set-free values and sets of small ints are stable.
Binding:
  spec -> code: every emitted tree is built as a real object and hashed by the real
      TypeRegistry.get_hash in child interpreters with PYTHONHASHSEED in {0, 1, 2, ...} and with
      shuffled insertion orders;
  code -> spec: the same for fixed witnesses and seeded random larger values (dataclasses,
      namedtuples, colliding ints, wide sets).  All observations (value id, seed, insertion order,
      hash, tree as it iterated) are validated by TLC (ValueHash_Trace.tla): one hash per value
      unless the value is in a deviation class; equal serialisation <=> equal hash.
  second seam, same law: in the same child every object is also RECORDED on a real RedunBackendDb
      (record_value -> the hash it is stored under, get_value -> the value back), and the stable
      witnesses run through a real Scheduler as a task result and a task argument
      (CallNode.value_hash, Argument.value_hash, call_hash read back).  TLC requires the recorded
      hash to be the value hash in every observation, the value to read back equal, and judges the
      recorded hash by the same law; the deviation-class licence is never applied to this seam.
"""

from __future__ import annotations

import copy
import json
import os
import random
import subprocess
import sys
from collections import Counter
from concurrent.futures import ThreadPoolExecutor

from .. import nested_values as nv
from ..core import VERIF, Ctx, MachineryError
from ..tlc import expect_clean, expect_violation, run_tlc

META = {
    "level": "model_checking",
    "level_text": "TLC checks on every value tree of the bounded universe that the serialisation redun "
                  "hashes is independent of set iteration order exactly outside three named deviation "
                  "classes; every such tree and hundreds of larger random values are hashed by the real "
                  "TypeRegistry.get_hash and recorded by the real RedunBackendDb.record_value in child "
                  "interpreters under several hash seeds and insertion orders (stable witnesses also as task "
                  "results / arguments of a real Scheduler run), and TLC validates the value hashes and the "
                  "recorded hashes for functional dependence on the value, for agreement with each other and "
                  "against the serialisation model.",
    "level_note": "Hash seeds 0..k only (not the 2^32 seeds), a few insertion orders per value; leaves are "
                  "ints, strings and a few other scalars; values are built the same way in every child "
                  "(object identity / pickle memoisation is not varied); CPython 3.12 set tables.",
    "technique": "explicit TLA+ spec + TLC exhaustive law check; spec->code hashing of every enumerated tree "
                 "and code->spec trace validation by TLC of hashes recorded in child interpreters",
    "rule": "a case is one abstract value hashed under all (seed, insertion order) pairs; distinct = distinct "
            "value tree; non-trivial = the value contains a set or frozenset with at least two elements",
}

KEYS = {
    "frozenset-toplevel": "the hash of a frozenset argument/result depends on PYTHONHASHSEED / insertion order "
                          "(pickled in iteration order; only builtins.set is sorted by Set.get_hash)",
    "frozenset-nested": "the hash of a value containing a frozenset (inside a list, tuple, dict, dataclass or "
                        "set) depends on PYTHONHASHSEED / insertion order",
    "set-nested-in-container": "the hash of a value containing a set below the top level depends on "
                               "PYTHONHASHSEED / insertion order (Set.get_hash sorts only a top-level set)",
}

A, B, C, K = 100, 101, 102, 110  # leaf ids of 'a', 'b', 'c', 'k' in the "hash" leaf family


def L(i: int) -> dict:
    return nv.N("leaf", i)


def fixed_witnesses() -> list:
    """(name, tree, expected to be stable by DESIGN.md's reproduction)"""
    abc = [L(A), L(B), L(C)]
    return [
        ("frozenset({'a','b','c'})", nv.N("fset", 0, abc), False),
        ("[{'a','b','c'}]", nv.N("list", 0, [nv.N("set", 0, abc)]), False),
        ("{'k': {'a','b'}}", nv.N("dict", 0, [L(K)], [nv.N("set", 0, [L(A), L(B)])]), False),
        ("{'a','b','c'} (top-level set)", nv.N("set", 0, abc), True),
        ("{'a',...,'h'} (top-level set of 8 strings)", nv.N("set", 0, [L(100 + j) for j in range(8)]), True),
        ("{0, 8, 16} (top-level set of colliding ints)", nv.N("set", 0, [L(0), L(8), L(16)]), True),
        ("{1, 2, 3} (top-level set of ints)", nv.N("set", 0, [L(1), L(2), L(3)]), True),
        ("[{1, 2, 3}] (nested set of ints)", nv.N("list", 0, [nv.N("set", 0, [L(1), L(2), L(3)])]), True),
        ("frozenset({1, 2, 3})", nv.N("fset", 0, [L(1), L(2), L(3)]), True),
        ("{('a', 'b'), ('a', 'c')} (top-level set of tuples)",
         nv.N("set", 0, [nv.N("tuple", 0, [L(A), L(B)]), nv.N("tuple", 0, [L(A), L(C)])]), True),
        ("['a', ('b', 1), {'k': None}] (no set)",
         nv.N("list", 0, [L(A), nv.N("tuple", 0, [L(B), L(1)]), nv.N("dict", 0, [L(K)], [L(200)])]), True),
    ]


# --------------------------------------------------------------------------------------------
# random values ("hash" leaf family: ids < 100 ints, 100.. strings, 200.. other scalars)
# --------------------------------------------------------------------------------------------
def _leaf(rng, hashable_pos: bool, sort: str | None = None) -> dict:
    sort = sort or rng.choice(["int", "int", "str", "str", "other"] if not hashable_pos else ["int", "str"])
    if sort == "int":
        return nv.N("leaf", rng.randint(0, 40))
    if sort == "str":
        return nv.N("leaf", 100 + rng.randint(0, 30))
    return nv.N("leaf", 200 + rng.randint(0, 7))


def _distinct(trees: list) -> list:
    seen, out = set(), []
    for t in trees:
        c = nv.canon(t, keynorm=True)
        if c not in seen:
            seen.add(c)
            out.append(t)
    return out


def rand_hash_tree(rng, depth: int, width: int, hashable_pos: bool = False, top: bool = True) -> dict:
    if depth <= 1 or rng.random() < 0.25:
        return _leaf(rng, hashable_pos)
    kinds = ["tuple", "nt", "fset", "dcf"] if hashable_pos else \
        ["list", "tuple", "nt", "dict", "set", "set", "fset", "fset", "dc", "dcf"]
    k = rng.choice(kinds)
    n = rng.randint(0, width)
    sub = lambda h=hashable_pos: rand_hash_tree(rng, depth - 1, width, h, False)  # noqa: E731
    if k in ("list", "tuple"):
        return nv.N(k, 0, [sub() for _ in range(n)])
    if k == "nt":
        n = max(1, min(n, nv.MAX_ARITY))
        return nv.N("nt", n, [sub() for _ in range(n)])
    if k == "dict":
        keys = _distinct([sub(True) for _ in range(n)])
        return nv.N("dict", 0, keys, [sub() for _ in keys])
    if k in ("set", "fset"):
        n = rng.randint(0, width + 3)
        if k == "set" and top:
            # a top-level set must be sortable: one sort of leaves, tuples of one sort, or frozensets
            mode, sort = rng.choice(["leaf", "leaf", "tuple", "fset"]), rng.choice(["int", "str"])
            if mode == "leaf":
                kids = [_leaf(rng, True, sort) for _ in range(n)]
            elif mode == "tuple":
                kids = [nv.N("tuple", 0, [_leaf(rng, True, sort) for _ in range(rng.randint(0, 2))]) for _ in range(n)]
            else:
                kids = [nv.N("fset", 0, _distinct([_leaf(rng, True) for _ in range(rng.randint(0, 3))])) for _ in range(n)]
        elif rng.random() < 0.5:
            sort = rng.choice(["int", "int", "str"])
            kids = [_leaf(rng, True, sort) for _ in range(n)]
        else:
            kids = [sub(True) for _ in range(min(n, width))]
        return nv.N(k, 0, _distinct(kids))
    flavour = nv.DC_FROZEN if k == "dcf" else nv.DC_PLAIN
    return nv.N("dc", flavour, [sub() for _ in range(min(n, nv.MAX_ARITY))], [])


def shuffled(rng, tree: dict) -> dict:
    """Same value, every set / frozenset node's children in a shuffled insertion order."""
    t = copy.copy(tree)
    t["x"] = [shuffled(rng, c) for c in tree["x"]]
    t["y"] = [shuffled(rng, c) if isinstance(c, dict) else c for c in tree["y"]]
    if t["k"] in ("set", "fset"):
        rng.shuffle(t["x"])
    return t


def has_big_set(tree: dict) -> bool:
    if tree["k"] in ("set", "fset") and len(tree["x"]) >= 2:
        return True
    return any(has_big_set(c) for c in tree["x"]) or any(isinstance(c, dict) and has_big_set(c) for c in tree["y"])


# --------------------------------------------------------------------------------------------
# child interpreters
# --------------------------------------------------------------------------------------------
def hash_in_children(ctx: Ctx, values: list, seeds: list, norders: int, wf: list | None = None) -> dict:
    """
    values: [(id, tree)] -> {id: [ {seed, ord, h, r, g, c, o} ]} from the REAL code, one child
    interpreter per hash seed: h = TypeRegistry.get_hash, r = the hash RedunBackendDb.record_value
    stored the object under, g = backend.get_value(r) gave an equal value back.
    wf: [(id, tree)]: values that additionally go through a real Scheduler run as a task result and
    a task argument; their CallNode.value_hash / Argument.value_hash are two more observations
    (ord 100 / 101) with the producing job's call hash in c.
    """
    jobs = []
    for vid, tree in values:
        rng = random.Random(f"{ctx.seed}/{vid}")
        jobs.append({"id": vid, "ords": [tree] + [shuffled(rng, tree) for _ in range(norders - 1)]})
    inp = ctx.tmp("hash_in.json")
    inp.write_text(json.dumps({"jobs": jobs, "wf": [{"id": vid, "tree": t} for vid, t in (wf or [])]}))
    procs = []
    for s in seeds:
        env = dict(os.environ)
        env["PYTHONHASHSEED"] = str(s)
        outp = ctx.tmp(f"hash_out_{s}.json")
        procs.append((s, outp, subprocess.Popen(
            [sys.executable, "-m", "harness.nested_values", "hashchild", str(inp), str(outp)],
            env=env, cwd=str(VERIF), stdout=subprocess.PIPE, stderr=subprocess.STDOUT, text=True)))
    obs: dict = {vid: [] for vid, _ in values}
    for s, outp, p in procs:
        out, _ = p.communicate(timeout=900)
        if p.returncode != 0:
            raise MachineryError(f"hash child (seed {s}) failed rc={p.returncode}:\n{out[-2000:]}")
        res = json.loads(outp.read_text())
        for r in res["jobs"]:
            for h, rh, g, o, ords in r["obs"]:
                for oi in ords:
                    obs[r["id"]].append({"seed": s, "ord": oi, "h": h, "r": rh, "g": g, "c": "", "o": o})
        for r in res["wf"]:
            for oi, key in ((100, "result"), (101, "arg")):
                obs[r["id"]].append({"seed": s, "ord": oi, "h": r["h"], "r": r[key], "g": 1, "c": r["call"],
                                     "o": r["o"]})
    return obs


def validate(ctx: Ctx, records: list, what: str) -> dict:
    """records: [{id, obs}] -> {index: verdict} by TLC (ValueHash_Trace)."""
    # identical observations of one value are merged (TLC reasons about the SET of (h, o) pairs)
    slim = []
    for r in records:
        seen, keep = set(), []
        for o in r["obs"]:
            key = (o["h"], o["r"], o["g"], o["c"], json.dumps(o["o"], sort_keys=True))
            if key not in seen:
                seen.add(key)
                keep.append(o)
        slim.append({"id": r["id"], "obs": keep})
    f = ctx.tmp(f"hash_trace_{what}.json")
    f.write_text(json.dumps(slim))
    w = min(4, int(os.environ.get("VERIF_WORKERS", "0")) or 4)
    cfg = f"SPECIFICATION Spec\nCONSTANTS\n Chains = {4 * w}\nINVARIANT Emit\nCHECK_DEADLOCK FALSE\n"
    res = run_tlc("common/ValueHash_Trace.tla", cfg, ctx.scratch / f"trace_{what}", workers=w,
                  env={"TRACE_FILE": str(f)}, timeout=1500, heap="8g")
    if res.error or res.violated:
        raise MachineryError(f"TLC failed on hash trace validation ({what}): {res.error} {res.violated}\n{res.out[-2500:]}")
    ctx.add_tlc(res)
    verdicts = {v[0]: v[1:] for v in res.recs("VERDICT")}
    ctx.require(len(verdicts) == len(records), f"verdicts {len(verdicts)} != records {len(records)} ({what})")
    return verdicts


def _tick(ctx: Ctx, label: str) -> None:
    if os.environ.get("VERIF_TIMING"):
        print(f"  [{ctx.elapsed():6.1f}s] {label}", flush=True)


def hash_cfg(depth, width, rootw, top_kinds, ints="{1, 2}", strs="{101, 102}", emit=True, invs=None):
    kinds = '{"list", "tuple", "dict", "set", "fset", "dc"}'
    invs = ["AllLaws16"] + (["Emit"] if emit else []) if invs is None else invs
    return (f"SPECIFICATION Spec\nCONSTANTS\n IntIds = {ints}\n StrIds = {strs}\n MaxDepth = {depth}\n"
            f" Width = {width}\n Kinds = {kinds}\n DCs = {{1}}\n TopKinds = {top_kinds or kinds}\n TopDCs = {{1}}\n"
            f" RootSeqWidth = {rootw}\n EmitOn = {'TRUE' if emit else 'FALSE'}\nCHECK_DEADLOCK FALSE\n"
            + "".join(f"INVARIANT {i}\n" for i in invs))


# --------------------------------------------------------------------------------------------
def run(ctx: Ctx) -> None:
    ctx.assume("hash seeds 0..k and a few insertion orders stand for all seeds / histories",
               "every child builds a value the same way (object sharing / pickle memoisation is not varied)",
               "small non-negative ints hash to themselves; a table of ints with pairwise distinct slots "
               "iterates in slot order (CPython set: 8 slots up to 4 elements, 32 up to 18)",
               "dict insertion order is part of a dict's value (Python dicts are ordered); it is not shuffled")
    try:
        from redun.value import get_type_registry  # noqa: F401
    except ImportError as e:
        raise MachineryError(f"redun.value.get_type_registry not importable: {e}")
    # quick universes are a few thousand states: 4 workers do (16 JVM workers only add scheduling
    # pressure); the thorough universes use TLC's default
    w = int(os.environ.get("VERIF_WORKERS", "0")) or ctx.pick(4, "auto")
    pool = ThreadPoolExecutor(max_workers=4)
    bg = lambda name, cfg, **kw: pool.submit(run_tlc, "common/ValueHash_Gen.tla", cfg, ctx.scratch / name, **kw)  # noqa: E731

    # ---- 1. model: laws on the universes, emission, control -------------------------------------
    # quick: depth-3 roots are lists, tuples, sets and frozensets with one-slot child lists (dict and
    # dataclass roots over nested sets come from the random values); thorough: every root kind
    quick_roots = '{"list", "tuple", "set", "fset"}'
    u_deep = bg("deep", hash_cfg(3, 2, ctx.pick(1, 2), ctx.pick(quick_roots, None)), workers=w, timeout=1500,
                heap="8g")
    # the wide run also carries the model-level control: the plain law (no deviation classes) must
    # be violated (-continue: TLC reports it and still checks every state against the other invariants)
    u_wide = bg("wide", hash_cfg(2, 3, 3, None, ints="{1, 2, 3}", strs="{101, 102, 103}",
                                 invs=["AllLaws16", "Emit", "SerIndependentAlways"]),
                workers=2, timeout=900, extra=["-continue"])

    _tick(ctx, 'tlc started')
    # ---- 2. values: fixed witnesses, random larger values (code -> spec) -------------------------
    values: list = []  # (id, tree, source)
    for name, tree, _ in fixed_witnesses():
        values.append((len(values) + 1, tree, f"witness {name}"))
    nrand = ctx.pick(400, 3000)
    for _ in range(nrand):
        values.append((len(values) + 1, rand_hash_tree(ctx.rng, ctx.rng.randint(2, 4), ctx.pick(3, 4)), "random"))

    _tick(ctx, 'random values generated')
    # ---- 3. values: every tree TLC enumerated (spec -> code) -------------------------------------
    model_by_id: dict = {}
    for name, fut in (("wide", u_wide), ("deep", u_deep)):
        res = fut.result()
        if name == "wide":
            expect_violation(res, "SerIndependentAlways", "the plain law (no deviation classes) must fail in the model")
            ctx.require(set(res.violated) == {"SerIndependentAlways"} and res.distinct > 0,
                        f"ValueHash_Gen (wide): unexpected violations {set(res.violated)}")
        else:
            expect_clean(res, f"ValueHash_Gen laws ({name})")
        ctx.add_tlc(res)
        recs = res.recs("VAL")
        res.out, res.records = "", {}
        ctx.require(len(recs) > 100, f"{name}: only {len(recs)} values emitted")
        ctx.note(f"universe_{name}", {"states": res.distinct, "hashable_values": len(recs)})
        seen = Counter()
        for r in recs:
            cls = tuple(sorted(r["d"]))
            seen[cls] += 1
            # model-level "exactly": unstable <=> in a deviation class (also checked by TLC: DevExact)
            ctx.require((r["n"] > 1) == bool(cls), f"model: n={r['n']} but classes {cls} for {r['v']}")
            # thorough: every unstable value, every 3rd stable one (memory / child time)
            if ctx.quick or cls or seen[cls] % 3 == 0:
                vid = len(values) + 1
                values.append((vid, r["v"], f"tlc-{name}"))
                model_by_id[vid] = cls
        if name == "deep":
            for c in KEYS:
                ctx.require(seen[(c,)] > 0, f"model universe has no value whose only deviation class is {c}")
        ctx.note(f"universe_{name}_classes", {",".join(k) or "stable": n for k, n in seen.items()})

    _tick(ctx, f'universes in, {len(values)} values')
    # ---- 4. the real code, in child interpreters ---------------------------------------------------
    seeds = ctx.pick([0, 1, 2], [0, 1, 2, 3, 77, 12345])
    norders = ctx.pick(3, 4)
    # the stable witnesses also go through a real workflow (task result + task argument)
    wf_ids = {i + 1 for i, (_, _, st) in enumerate(fixed_witnesses()) if st}
    obs = hash_in_children(ctx, [(vid, t) for vid, t, _ in values], seeds, norders,
                           wf=[(vid, t) for vid, t, _ in values if vid in wf_ids])
    _tick(ctx, 'children done')
    ctx.note("seeds", seeds)
    ctx.note("insertion_orders_per_value", norders)
    ctx.note("seams", "TypeRegistry.get_hash; RedunBackendDb.record_value + get_value (every observation); "
                      "CallNode.value_hash / Argument.value_hash / call_hash after Scheduler.run "
                      f"({len(wf_ids)} stable witnesses x {len(seeds)} seeds)")
    records = [{"id": vid, "obs": obs[vid]} for vid, _, _ in values]
    for rec in records:
        want = len(seeds) * (norders + (2 if rec["id"] in wf_ids else 0))
        ctx.require(len(rec["obs"]) == want, f"value {rec['id']}: {len(rec['obs'])} observations, expected {want}")
    # negative controls on a set-free value recorded twice in the very same iteration order:
    #  (a) different value hashes -> two hashes, no licence, "same Ser, different hash"
    #  (b) the hash it was RECORDED under differs from its value hash in one observation
    #  (c) one observation whose recorded value did not read back equal
    noset = next(i for i, (n, _, _) in enumerate(fixed_witnesses()) if "no set" in n)
    o0 = next(o for o in records[noset]["obs"] if o["ord"] == 0)
    bad_a = {"id": 0, "obs": [dict(o0), dict(o0, seed=99, h="0" * 40, r="0" * 40)]}
    bad_b = {"id": -1, "obs": [dict(o0), dict(o0, seed=99, r="1" * 40)]}
    bad_c = {"id": -2, "obs": [dict(o0), dict(o0, seed=99, g=0)]}
    verdicts = validate(ctx, records + [bad_a, bad_b, bad_c], "all")
    _tick(ctx, 'trace validated')
    pool.shutdown()
    va, vb, vc = (verdicts[len(records) + k] for k in (1, 2, 3))
    ctx.negative_control(va[1] == 2 and va[7] == [] and va[3] == 0,
                         "a stable value with one value hash replaced must be rejected by TLC "
                         "(two hashes, no deviation class, equal serialisation with different hash)")
    ctx.negative_control(vb[1] == 1 and vb[8] == 2 and vb[9] == 0 and vb[10] == 0,
                         "a value recorded under another hash than its value hash must be rejected by TLC "
                         "(two recorded hashes, equal serialisation with different recorded hash, disagreement)")
    ctx.negative_control(vc[11] == 0 and vc[10] == 1,
                         "a recorded value that does not read back equal must be rejected by TLC")

    # ---- 5. judge ------------------------------------------------------------------------------
    reported: Counter = Counter()
    unkeyed = 0
    stats = Counter()
    by_id = {vid: (t, src) for vid, t, src in values}
    witness_obs = {}
    for idx, rec in enumerate(records, start=1):
        vid, nh, same, fwd, bwd, stable, wf, classes, nr, fwd_r, agree, back, nc = verdicts[idx]
        tree, src = by_id[vid]
        ctx.count_eval()
        ctx.count_impl_trace(len(rec["obs"]))
        if has_big_set(tree):
            ctx.distinct(nv.canon(tree, True))
        if not same:
            raise MachineryError(f"value {vid} ({src}): the children did not build the same abstract value")
        if not wf:
            raise MachineryError(f"value {vid} ({src}) is not a well-formed hashable value: {tree}")
        if vid in model_by_id and tuple(sorted(classes)) != model_by_id[vid]:
            raise MachineryError(f"value {vid}: classes differ between ValueHash_Gen and ValueHash_Trace")
        if src.startswith("witness"):
            witness_obs[src[8:]] = {"distinct_hashes": nh, "classes": classes, "distinct_recorded_hashes": nr,
                                    "recorded_is_value_hash": bool(agree), "distinct_call_hashes": nc,
                                    "by_seed": {str(o["seed"]): o["h"][:10] for o in rec["obs"] if o["ord"] == 0}}
        replay = {"tree": tree, "source": src, "seeds": seeds, "norders": norders, "wf": vid in wf_ids,
                  "hashes": sorted({(o["seed"], o["ord"], o["h"], o["r"]) for o in rec["obs"]})}
        if nh > 1:
            stats["varying"] += 1
            if classes:
                for c in classes:
                    if c not in KEYS:
                        raise MachineryError(f"unknown deviation class from the model: {c}")
                    reported[c] += 1
                    if reported[c] == 1:
                        ctx.violation(f"{KEYS[c]}: {nh} different hashes over seeds {seeds} x {norders} insertion "
                                      f"orders for {nv.build(tree, 'hash')!r}", replay, key=c)
            else:
                unkeyed += 1
                if unkeyed <= 10:
                    ctx.violation(f"value hash varies ({nh} hashes over seeds {seeds} x {norders} insertion orders) "
                                  f"although the value has no frozenset and no nested set: "
                                  f"{nv.build(tree, 'hash')!r}", replay, key=None)
        else:
            stats["stable_licensed" if classes else "stable"] += 1
        if not fwd and not (nh > 1 and not classes):
            unkeyed += 1
            if unkeyed <= 10:
                ctx.violation(f"two observations with the same iteration orders (same Ser) have different hashes: "
                              f"{nv.build(tree, 'hash')!r}", replay, key=None)
        # ---- the recording path: second observation of the same law ----
        # (judged on its own: it never borrows the licence of a deviation class, because whenever the
        #  recorded hash IS the value hash its variation is the one already reported above)
        if not agree:
            stats["recorded_hash_differs_from_value_hash"] += 1
            unkeyed += 1
            if unkeyed <= 10:
                w = next(o for o in rec["obs"] if o["r"] != o["h"])
                seam = {100: "CallNode.value_hash of the task that returned it",
                        101: "Argument.value_hash of the task that received it"}.get(w["ord"], "record_value")
                ctx.violation(f"the hash a value is RECORDED under ({seam}: {w['r'][:12]}, PYTHONHASHSEED={w['seed']}) "
                              f"is not its value hash (TypeRegistry.get_hash: {w['h'][:12]}); {nr} distinct recorded "
                              f"hashes vs {nh} value hashes over seeds {seeds} x {norders} insertion orders for "
                              f"{nv.build(tree, 'hash')!r}", replay, key=None)
        elif not fwd_r and fwd:
            raise MachineryError(f"value {vid}: r = h everywhere but the verdicts on r and h differ")
        if not back:
            stats["recorded_value_not_read_back_equal"] += 1
            unkeyed += 1
            if unkeyed <= 10:
                ctx.violation(f"backend.get_value(hash returned by record_value) does not give back an equal value "
                              f"for {nv.build(tree, 'hash')!r}", replay, key=None)
        if nc > 1 and not classes:
            stats["call_hash_varies"] += 1
            unkeyed += 1
            if unkeyed <= 10:
                ctx.violation(f"the call hash of a job returning {nv.build(tree, 'hash')!r} differs between "
                              f"interpreters ({nc} call hashes over seeds {seeds})", replay, key=None)
        if not bwd:
            stats["asbuilt_drift_same_hash_other_order"] += 1
        if not stable:
            stats["int_table_not_in_slot_order"] += 1
    _tick(ctx, 'judged')
    ctx.note("results", dict(stats))
    ctx.note("witnesses", witness_obs)
    ctx.note("deviation_witness_counts", dict(reported))
    ctx.require(stats["int_table_not_in_slot_order"] == 0 or unkeyed > 0,
                "IntStable assumption of ValueHash.tla does not hold for this interpreter "
                f"({stats['int_table_not_in_slot_order']} values)")
    for name, tree, _ in fixed_witnesses()[:4]:
        ctx.sample({"witness": name, **witness_obs[name]})


def replay(ctx: Ctx, rec: dict) -> None:
    r = rec["replay"]
    if "tree" not in r:
        return run(ctx)
    obs = hash_in_children(ctx, [(1, r["tree"])], r.get("seeds", [0, 1, 2]), r.get("norders", 3),
                           wf=[(1, r["tree"])] if r.get("wf") else None)
    verdicts = validate(ctx, [{"id": 1, "obs": obs[1]}], "replay")
    _, nh, same, fwd, bwd, stable, wf, classes, nr, fwd_r, agree, back, nc = verdicts[1]
    if nh > 1:
        if classes:
            for c in classes:
                ctx.violation(f"{KEYS[c]}: {nh} different hashes", r, key=c)
        else:
            ctx.violation(f"value hash varies ({nh} hashes) without a deviation class", r, key=None)
    elif not fwd:
        ctx.violation("two observations with the same iteration orders have different hashes", r, key=None)
    if not agree:
        ctx.violation(f"recorded hash differs from the value hash ({nr} recorded hashes, {nh} value hashes)", r, key=None)
    if not back:
        ctx.violation("recorded value does not read back equal", r, key=None)
    if nc > 1 and not classes:
        ctx.violation(f"call hash varies ({nc})", r, key=None)
