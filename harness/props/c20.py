"""
C20  Recorded call graphs are a consistent Merkle record of the run.

Spec: spec/eval/Prov.tla derives, from the reduction semantics of Eval.tla, the set of call nodes an
execution must record: node = [term <<task, argument values, result>>, kids (terms of the calls the job
made directly, at any expression depth, through lazy operators / containers / scheduler tasks), args].
Prov_Oracle compares it with the call graph read back from the database (CallNode, CallEdge, Argument,
Value rows of the execution, mapped to the same terms) and also requires the integrity facts that need
redun's concrete hash functions: every call hash equals hash_call_node(task hash, args hash, result
hash, children), every value row deserialises to a value whose hash is its key, job rows / parent links
stay inside the execution, the execution's root job is the parentless job.  Failed calls are part of the
record (caught errors), cached and deduplicated calls appear once.  Tags applied with apply_tags must
sit on the intended entity (checked on dedicated programs).
"""

from __future__ import annotations

import copy
import json

from ..core import Ctx
from .. import evallab as EL, provlab as PL

META = {
    "level": "model_checking",
    "level_text": "TLC derives the expected call-node set from the explicit semantics for seeded programs "
                  "(calls with positional/keyword/default arguments, operators, containers, cond, seq, "
                  "catch, map_, partial tasks, nested task bodies) and compares it with the database record "
                  "of real executions under random schedules; Merkle, value and job-tree integrity are "
                  "recomputed from the concrete rows.",
    "level_note": "Programs are restricted to a single admissible outcome (errors only inside catch); terms "
                  "identify call nodes up to children, which are a function of the term for deterministic "
                  "tasks; prov=False subtrees and subrun are not generated.",
    "technique": "explicit TLA+ semantics producing the expected provenance record, evaluated by TLC; "
                 "code->spec validation of database dumps",
    "rule": "a case is one program + schedule; distinct by program JSON; non-trivial = the expected record "
            "has at least three call nodes",
}


def collect(ctx: Ctx, n: int, tagp: str):
    cases = []
    fixed = [EL.call("twice", EL.V(3)), EL.call("add", EL.call("inc", EL.V(1)), EL.call("inc", EL.V(1))),
             EL.call("withdef", EL.V(2)), EL.call("safe", EL.V(1)),
             EL.call("sumall", {"k": "map", "t": "inc", "xs": {"k": "list", "items": [EL.V(1), EL.call("inc", EL.V(5))]}}),
             EL.call("sumall", {"k": "map", "t": "twice", "xs": EL.call("fan", EL.V(2))}),
             EL.call("kw", EL.V(1), kw=[["c", EL.call("inc", EL.V(0))]]),
             EL.call("chooser", EL.V(5)), EL.call("sumall", EL.call("mid", EL.call("deep", EL.V(2)))),
             # two equal scheduler-task expressions under one parent (the second reuses the first one's evaluation)
             EL.call("add", {"k": "catch", "body": EL.call("inc", EL.V(0)), "handlers": [[["ValueError"], "recover"]]},
                     EL.call("ident", {"k": "catch", "body": EL.call("inc", EL.V(0)), "handlers": [[["ValueError"], "recover"]]})),
             # an equal expression reached only AFTER the first one has finished (a later item of seq, the branch of a
             # cond whose guard consumed the first): its consumer's argument still links to the producing call
             EL.call("sumall", {"k": "seq", "items": [EL.call("inc", EL.V(1)), EL.call("ident", EL.call("inc", EL.V(1)))]}),
             {"k": "cond", "clauses": [[EL.call("inc", EL.V(3)), EL.call("add", EL.call("inc", EL.V(3)), EL.V(5))]], "else": EL.V(0)},
             EL.call("sumall", {"k": "seq", "items": [EL.call("twice", EL.V(2)), EL.call("add", EL.call("twice", EL.V(2)), EL.call("inc", EL.V(7)))]}),
             EL.call("add", {"k": "cond", "clauses": [[EL.call("inc", EL.V(1)), EL.call("twice", EL.V(2))]], "else": EL.V(0)},
                     EL.call("ident", {"k": "cond", "clauses": [[EL.call("inc", EL.V(1)), EL.call("twice", EL.V(2))]], "else": EL.V(0)}))]
    progs = (fixed + [PL.prov_expr(ctx.rng, ctx.rng.randint(2, 4)) for _ in range(n)]
             + [PL.dup_call_program(ctx.rng) for _ in range(max(12, n // 3))])
    for i, e in enumerate(progs):
        # every third program is evaluated from a deserialised expression (as a cached result expression is)
        out, nodes, flags, tree = PL.run_and_read(ctx, e, f"{tagp}{i}", ctx.rng, thaw=(i % 3 == 2))
        cases.append({"id": i + 1, "e": e, "obs": nodes, "flags": flags, "out": out, "tree": tree,
                      "thawed": i % 3 == 2})
    return cases


def tag_cases(ctx: Ctx) -> None:
    """apply_tags on value / job / execution: the tag rows must name the intended entity."""
    import os
    import uuid

    from redun.backends.db import Job, Tag
    from redun.scheduler import apply_tags

    from .. import simloop
    from .. import evallib as L

    db = simloop.clone_db(ctx.scratch, "tags.db")
    bk = simloop.open_backend(db)
    try:
        s, d = simloop.make_scheduler(bk, limits={})
        eid = str(uuid.uuid4())
        expr = L.ident(apply_tags(L.inc(41), [("vk", "v1")], job_tags=[("jk", 2)], execution_tags=[("ek", [3])]))
        out = simloop.run_controlled(s, d, expr, execution_id=eid)
        ctx.require(out["outcome"] == "value" and out["value"] == 42, f"tag program failed: {out}")
        rows = {(t.entity_type.name if hasattr(t.entity_type, "name") else str(t.entity_type), t.key): t
                for t in bk.session.query(Tag).all()}
        from redun.value import get_type_registry

        vh = get_type_registry().get_hash(42)
        root = bk.session.query(Job).filter(Job.execution_id == eid, Job.parent_id.is_(None)).one()
        problems = []
        if ("Value", "vk") not in rows or rows[("Value", "vk")].entity_id != vh or rows[("Value", "vk")].value != "v1":
            problems.append("value tag not on the hash of the tagged value")
        if ("Job", "jk") not in rows or rows[("Job", "jk")].entity_id != root.id or rows[("Job", "jk")].value != 2:
            problems.append("job tag not on the job that evaluated apply_tags")
        if ("Execution", "ek") not in rows or rows[("Execution", "ek")].entity_id != eid or rows[("Execution", "ek")].value != [3]:
            problems.append("execution tag not on the execution")
        ctx.count_eval()
        ctx.count_impl_trace()
        for p in problems:
            ctx.violation(f"apply_tags: {p}", {"program": "ident(apply_tags(inc(41), [vk=v1], job_tags=[jk=2], execution_tags=[ek=[3]]))",
                                                "rows": [(k, r.entity_id, r.value) for k, r in rows.items()]})
    finally:
        simloop.close_backend(bk)
        try:
            os.unlink(db)
        except OSError:
            pass


def run(ctx: Ctx) -> None:
    ctx.assume("task functions are deterministic; programs have a single admissible outcome")
    cases = collect(ctx, ctx.pick(60, 900), "c20_")
    # negative controls: drop one recorded child edge; flip one integrity fact
    big = next(c for c in cases if any(n["kids"] for n in c["obs"]))
    c1 = copy.deepcopy(big)
    c1["id"] = len(cases) + 1
    next(n for n in c1["obs"] if n["kids"])["kids"].pop()
    c2 = copy.deepcopy(big)
    c2["id"] = len(cases) + 2
    c2["flags"]["merkle"] = 0
    payload = [{k: c[k] for k in ("id", "e", "obs", "flags")} for c in cases + [c1, c2]]
    v = PL.judge(ctx, payload, "c20", dev_map=False, dev_default=True)
    ctx.negative_control(not v[c1["id"]]["graph"], "a dropped child edge must be rejected")
    ctx.negative_control(not v[c2["id"]]["flags"], "a call hash that does not recompute must be rejected")
    for c in cases:
        r = v[c["id"]]
        ctx.count_eval()
        ctx.count_impl_trace()
        if r["n"] >= 3:
            ctx.distinct(c["e"])
        if c["tree"]["njob_rows"] > c["tree"]["njobs_created"]:
            ctx.violation("more Job rows than jobs created", {"e": c["e"], "tree": c["tree"]})
        if not r["graph"]:
            ctx.violation(f"recorded call graph differs from the expected record: missing {json.dumps(r['diff'][0])[:300]} "
                          f"unexpected {json.dumps(r['diff'][1])[:300]} for program {json.dumps(c['e'])[:300]}",
                          {"e": c["e"], "obs": c["obs"], "diff": r["diff"]})
        if not r["flags"]:
            ctx.violation(f"integrity facts failed {c['flags']} for program {json.dumps(c['e'])[:300]}",
                          {"e": c["e"], "flags": c["flags"]})
    tag_cases(ctx)
    ctx.sample({"program": cases[9]["e"], "recorded_nodes": cases[9]["obs"][:3]})


def replay(ctx: Ctx, rec: dict) -> None:
    e = rec["replay"]["e"]
    out, nodes, flags, tree = PL.run_and_read(ctx, e, "replay", ctx.rng)
    v = PL.judge(ctx, [{"id": 1, "e": e, "obs": nodes, "flags": flags}], "replay", False, True)
    if not (v[1]["graph"] and v[1]["flags"]):
        ctx.violation(f"replayed program: record differs {v[1]}", rec["replay"])
