"""
C24  Tag history behaves like a key-value multiset.

Spec: spec/seq/Tags.tla -- the Tag / TagEdit tables at backend-call granularity (tag id = the
pre-image of hash_tag, is_current, edit edges, record_tags with new / update / parents and the walk
down superseded tags, delete_tags, update_tags) refining a per-entity set of (key, JSON value)
pairs.  TLC: Current = Model after every call, re-added pairs are current, the edit graph is
acyclic, table shape, no resurrection of superseded ids; the strict refinement fails exactly
through the named deviations.
Binding, both directions:
  spec -> code: every behaviour of Tags_Gen (exhaustive trees for small bounds, -simulate for long
                ones) is replayed through the backend calls the `redun tag add/update/rm` commands
                make on an in-memory SQLite RedunBackendDb (a sample also through the real CLI);
                get_tags per entity, the error flag and the table sizes are compared after every
                call, the whole Tag/TagEdit graph at the end.
  code -> spec: seeded random longer histories (more entities, keys, JSON kinds, up to three
                pairs per call) are executed on the real backend, recorded, and validated by TLC
                (Tags_Trace) with every invariant of Tags.tla evaluated at every step.
Which deviations are "as built" is probed on the code first (five short witness histories); the
generator and the trace spec then run with exactly that set, so a repaired tree is compared with
the repaired machine and an unrepaired one with the as-built machine; every other difference is a
violation.
"""

from __future__ import annotations

import copy
import json
import logging
import multiprocessing
import os

from ..core import Ctx, MachineryError
from ..tlc import expect_clean, expect_violation, run_tlc

META = {
    "level": "model_checking",
    "level_text": "TLC checks that the current tags equal the key-value set model after every call, "
                  "that re-added pairs are current and that the edit graph stays acyclic on every "
                  "history of tag add/update/rm calls within the bounds (2 entities x 2 keys x 3 JSON kinds; "
                  "4 calls in the quick tier, 5 in the thorough tier; also two pairs per call and the "
                  "plain record_tags / update_tags API at smaller bounds); the same histories (exhaustive small trees, simulated long "
                  "ones) are executed on the real Tag/TagEdit tables and compared call by call, and "
                  "random longer real histories are validated by TLC against the same spec.",
    "level_note": "SQLite only (the JSON comparison in delete_tags is dialect dependent); single "
                  "session, no concurrent writers; values drawn from a fixed set of JSON kinds; "
                  "entity ids are opaque strings for the tag functions (no foreign key).",
    "technique": "explicit TLA+ spec + TLC exhaustive check; spec->code behaviour replay and "
                 "code->spec batched trace validation by TLC",
    "rule": "a case is one history of backend calls; distinct = distinct sequence of call records; "
            "non-trivial = at least one call superseded an existing tag (a TagEdit row exists at the end)",
}

# JSON value tokens of the spec <-> Python values stored in the JSON column
TOK = {"i1": 1, "i2": 2, "f1": 1.0, "s1": "1", "sa": "a", "null": None, "true": True,
       "l1": [1], "o1": {"a": 1}}
CLI_TEXT = {"i1": "1", "i2": "2", "f1": "1.0", "s1": '"1"', "sa": "a", "null": "null",
            "true": "true", "l1": "[1]", "o1": '{"a": 1}'}
_REV = {(type(v).__name__, json.dumps(v, sort_keys=True)): t for t, v in TOK.items()}

CLI_DEVS = {
    "NullNotDeletable": "rm-null-value",
    "DupPairRaises": "dup-pair-integrity-error",
    "EmptyRmDeletesAll": "rm-empty-deletes-all",
}
EXTRA_DEVS = ["PlainNoRevive", "UpdateTagsEmptyNoop"]
ALL_DEVS = list(CLI_DEVS) + EXTRA_DEVS
CLI_OPS = ["add", "update", "rm"]
ALL_OPS = CLI_OPS + ["record", "update_tags"]


def tok_of(v) -> str:
    t = _REV.get((type(v).__name__, json.dumps(v, sort_keys=True)))
    return t if t is not None else "?" + type(v).__name__ + ":" + json.dumps(v, sort_keys=True)


def tla_set(xs) -> str:
    return "{" + ", ".join(json.dumps(x) for x in xs) + "}"


def cfg_text(spec: str, entities, keys, vals, max_ops, max_args, op_kinds, devs, invariants=(),
             properties=()) -> str:
    t = (f"SPECIFICATION {spec}\nCONSTANTS\n Entities = {tla_set(entities)}\n Keys = {tla_set(keys)}\n"
         f" Vals = {tla_set(vals)}\n MaxOps = {max_ops}\n MaxArgs = {max_args}\n"
         f" OpKinds = {tla_set(op_kinds)}\n Devs = {tla_set(devs)}\n")
    t += "".join(f"INVARIANT {i}\n" for i in invariants)
    t += "".join(f"PROPERTY {p}\n" for p in properties)
    return t + "CHECK_DEADLOCK FALSE\n"


MAX_VIOL = 25   # replay files written per run
STATE_INVS = ["TypeOK", "CurrentIsModelUnlessDev", "CurrentIsRModel", "ReAddCurrent", "Acyclic",
              "GraphWF", "DevScope"]


class World:
    """Interprets model calls on the real tag tables (in-memory SQLite RedunBackendDb)."""

    def __init__(self, entities=("e1", "e2", "e3")):
        logging.getLogger("redun").setLevel(logging.ERROR)
        from redun.backends.base import TagEntity
        from redun.backends.db import RedunBackendDb, Tag, TagEdit

        self.Tag, self.TagEdit, self.TagEntity = Tag, TagEdit, TagEntity
        self.backend = RedunBackendDb(db_uri="sqlite:///:memory:")
        self.backend.load()
        # real rows as entities: the tag functions take (entity_type, entity_id) as the CLI passes
        # them from infer_id; nothing in the schema ties Tag.entity_id to them (no foreign key)
        self.ids, self.types = {}, {}
        for i, e in enumerate(entities):
            self.ids[e] = self.backend.record_value({"verif-entity": e})
            self.types[e] = TagEntity.Value
        self.names = {v: k for k, v in self.ids.items()}
        self.names[""] = ""

    @property
    def session(self):
        return self.backend.session

    def reset(self) -> None:
        s = self.session
        s.rollback()
        s.query(self.TagEdit).delete()
        s.query(self.Tag).delete()
        s.commit()

    def apply(self, op: dict) -> int:
        """Exactly the backend calls of tag_add_command / tag_update_command / tag_rm_command."""
        b = self.backend
        n, e = op["n"], op["e"]
        kvs = [(k, copy.deepcopy(TOK[v])) for k, v in op["kvs"]]
        try:
            if n == "add":
                b.record_tags(self.types[e], self.ids[e], kvs, new=True)
            elif n == "update":
                b.record_tags(self.types[e], self.ids[e], kvs, update=True)
            elif n == "rm":
                b.delete_tags(self.ids[e], kvs, list(op["keys"]))
            elif n == "record":
                b.record_tags(self.types[e], self.ids[e], kvs)
            elif n == "update_tags":
                b.update_tags(self.types[e], self.ids[e], list(op["keys"]), kvs)
            else:
                raise MachineryError(f"unknown op {n}")
            return 0
        except MachineryError:
            raise
        except Exception as ex:  # a new CLI process starts with a fresh session: uncommitted work is lost
            self.last_error = f"{type(ex).__name__}: {str(ex)[:160]}"
            self.session.rollback()
            return 1

    def current(self, entities) -> dict:
        """get_tags per entity as sorted [key, token, multiplicity]."""
        tags = self.backend.get_tags([self.ids[e] for e in entities])
        out = {}
        for e in entities:
            cnt: dict = {}
            tm = tags.get(self.ids[e])
            if tm is not None:
                for k, v in tm:
                    cnt[(k, tok_of(v))] = cnt.get((k, tok_of(v)), 0) + 1
            out[e] = sorted([k, t, c] for (k, t), c in cnt.items())
        return out

    _SIZES = ("select (select count(*) from tag), (select count(*) from tag_edit), "
              "(select count(*) from tag where is_current)")

    def obs(self, entities, err: int) -> dict:
        from sqlalchemy import text

        nt, ne, nc = self.session.execute(text(self._SIZES)).one()
        return {"cur": self.current(entities), "err": err, "nt": nt, "ne": ne, "nc": nc}

    def graph(self) -> dict:
        """All Tag / TagEdit rows: nodes [entity, key, token, is_current] numbered from 1, edges."""
        Tag, TagEdit = self.Tag, self.TagEdit
        rows = self.session.query(Tag.tag_hash, Tag.entity_id, Tag.key, Tag.value, Tag.is_current) \
            .order_by(Tag.tag_hash).all()
        idx = {r[0]: i + 1 for i, r in enumerate(rows)}
        nodes = [[self.names.get(r[1], "?" + str(r[1])), r[2], tok_of(r[3]), 1 if r[4] else 0] for r in rows]
        edges = []
        for p, c in self.session.query(TagEdit.parent_id, TagEdit.child_id).order_by(
                TagEdit.parent_id, TagEdit.child_id).all():
            if p not in idx or c not in idx:
                edges.append([idx.get(p, 0), idx.get(c, 0)])  # dangling edge: shows up as drift
            else:
                edges.append([idx[p], idx[c]])
        return {"nodes": nodes, "edges": edges}


def graph_cyclic(g: dict) -> bool:
    n = len(g["nodes"])
    children: dict = {i: [] for i in range(0, n + 1)}
    for p, c in g["edges"]:
        children[p].append(c)
    color = [0] * (n + 1)
    for root in range(1, n + 1):
        if color[root]:
            continue
        stack = [(root, iter(children[root]))]
        color[root] = 1
        while stack:
            node, it = stack[-1]
            nxt = next(it, None)
            if nxt is None:
                color[node] = 2
                stack.pop()
            elif color[nxt] == 1:
                return True
            elif color[nxt] == 0:
                color[nxt] = 1
                stack.append((nxt, iter(children[nxt])))
    return False


def graph_terms(g: dict) -> set:
    """The rows as hash pre-image terms (entity, key, token, sorted parent terms), with is_current."""
    parents: dict = {}
    for p, c in g["edges"]:
        parents.setdefault(c, []).append(p)
    memo: dict = {}

    def term(i):
        if i not in memo:
            nd = g["nodes"][i - 1] if i > 0 else ["?", "?", "?", 0]
            memo[i] = (nd[0], nd[1], nd[2], tuple(sorted(term(p) for p in parents.get(i, []))))
        return memo[i]

    return {(term(i + 1), g["nodes"][i][3]) for i in range(len(g["nodes"]))}


def model_terms(mg: dict) -> set:
    nodes = mg["nodes"]
    memo: dict = {}

    def term(i):
        if i not in memo:
            nd = nodes[i - 1]
            memo[i] = (nd[0], nd[1], nd[2], tuple(sorted(term(p) for p in nd[4])))
        return memo[i]

    return {(term(i + 1), nodes[i][3]) for i in range(len(nodes))}


def sets_of(cur: dict) -> dict:
    return {e: sorted([k, v] for k, v, *_ in lst) for e, lst in cur.items()}


def bags_of(cur: dict) -> dict:
    return {e: sorted([k, v, c] for k, v, c in lst) for e, lst in cur.items()}


def replay_one(world: World, beh: dict) -> dict:
    """Replays one TLC behaviour; result: status ok|viol, drift flag, details."""
    world.reset()
    steps = beh["h"]
    res = {"status": "ok", "drift": None, "devsteps": 0, "nontrivial": False}
    for i, step in enumerate(steps):
        m = step["obs"]
        ents = sorted(m["cur"].keys())
        err = world.apply(step["op"])
        o = world.obs(ents, err)
        if m["devstep"]:
            res["devsteps"] += 1
        if sets_of(o["cur"]) != sets_of(m["cur"]) or o["err"] != m["err"]:
            res.update(status="viol", at=i, impl_obs=o,
                       what=f"after call {i + 1} ({fmt_op(step['op'])}) get_tags / error flag differ from "
                            f"Tags.tla: model cur={sets_of(m['cur'])} err={m['err']}, "
                            f"code cur={sets_of(o['cur'])} err={o['err']}"
                            + (f" ({world.last_error})" if err else ""))
            return res
        if res["drift"] is None and (bags_of(o["cur"]) != bags_of(m["cur"])
                                     or (o["nt"], o["ne"], o["nc"]) != (m["nt"], m["ne"], m["nc"])):
            res["drift"] = f"call {i + 1}: multiplicities / table sizes differ: model {m} code {o}"
    g = world.graph()
    res["nontrivial"] = len(g["edges"]) > 0
    if graph_cyclic(g):
        res.update(status="viol", at=len(steps) - 1, impl_obs=g, what="the TagEdit graph has a cycle")
        return res
    if res["drift"] is None and graph_terms(g) != model_terms(beh["g"]):
        res["drift"] = "final Tag/TagEdit graph differs from the model's"
    return res


def fmt_op(op: dict) -> str:
    kv = " ".join(f"{k}={CLI_TEXT.get(v, v)}" for k, v in op["kvs"])
    ks = " ".join(op["keys"])
    name = {"add": "tag add", "update": "tag update", "rm": "tag rm"}.get(op["n"], op["n"])
    return f"{name} {op['e']} {kv} {ks}".strip()


# ---- worker pool (SQLAlchemy on SQLite costs 1.5-3 ms per call; behaviours are independent) --------
_W = None


def _chunk(behs: list) -> list:
    global _W
    if _W is None:
        _W = World()
    return [replay_one(_W, b) for b in behs]


def pool_size() -> int:
    return max(1, min(8, (os.cpu_count() or 2) // 2))


_POOL = None


def get_pool():
    """One pool for the whole run: every worker builds its in-memory backend once."""
    global _POOL
    if _POOL is None:
        _POOL = multiprocessing.get_context("fork").Pool(pool_size())
    return _POOL


def close_pool() -> None:
    global _POOL
    if _POOL is not None:
        _POOL.terminate()
        _POOL.join()
        _POOL = None


def replay_all(ctx: Ctx, behs: list, source: str, stats: dict) -> None:
    nproc = pool_size()
    size = max(25, -(-len(behs) // (nproc * 2)))
    chunks = [behs[i:i + size] for i in range(0, len(behs), size)]
    if len(chunks) <= 1 or nproc == 1:
        results = [_chunk(c) for c in chunks]
    else:
        results = get_pool().map(_chunk, chunks, chunksize=1)
    k = 0
    for rs in results:
        for r in rs:
            b = behs[k]
            k += 1
            ctx.count_eval()
            ctx.count_impl_trace()
            stats["behaviours"] += 1
            stats["dev_behaviours"] += 1 if r["devsteps"] else 0
            if r["nontrivial"]:
                ctx.distinct([s["op"] for s in b["h"]])
            if r["drift"]:
                stats["asbuilt_drift"] += 1
                stats.setdefault("drift_example", {"source": source, "what": r["drift"],
                                                   "ops": [fmt_op(s["op"]) for s in b["h"]]})
            if r["status"] == "viol" and len(ctx.violations) < MAX_VIOL:
                ctx.violation(r["what"], {"source": source, "behaviour": b, "at": r["at"],
                                          "impl": r.get("impl_obs")})


# ---- code -> spec ---------------------------------------------------------------------------------
def gen_random_trace(rng, world: World, n_ops: int, entities, keys, toks, op_kinds) -> dict:
    world.reset()
    steps = []
    for _ in range(n_ops):
        n = rng.choice(op_kinds)
        e = rng.choice(entities)
        nkv = rng.choice([0, 1, 1, 1, 1, 2, 2, 3])
        kvs = [[rng.choice(keys), rng.choice(toks)] for _ in range(nkv)]
        if nkv >= 2 and rng.random() < 0.25:
            kvs[-1] = list(kvs[0])  # the same pair twice in one command
        ks = []
        if n in ("rm", "update_tags"):
            ks = sorted(set(rng.choice(keys) for _ in range(rng.choice([0, 0, 1, 1, 2]))))
            if n == "rm" and rng.random() < 0.5:
                kvs = kvs[:1]
        op = {"n": n, "e": e, "kvs": kvs, "keys": ks}
        err = world.apply(op)
        steps.append({"op": op, "obs": world.obs(entities, err)})
    g = world.graph()
    return {"steps": steps, "nodes": g["nodes"], "edges": g["edges"]}


def _gen_chunk(args) -> list:
    global _W
    import random

    seeds, entities, keys, toks, kinds = args
    if _W is None:
        _W = World()
    out = []
    for sd in seeds:
        rng = random.Random(sd)
        out.append(gen_random_trace(rng, _W, rng.randint(6, 14), entities, keys, toks, kinds))
    return out


def gen_traces(ctx: Ctx, n: int, entities, keys, toks, kinds) -> list:
    seeds = [ctx.rng.getrandbits(48) for _ in range(n)]
    size = 25
    jobs = [(seeds[i:i + size], entities, keys, toks, kinds) for i in range(0, n, size)]
    nproc = pool_size()
    if len(jobs) <= 1 or nproc == 1:
        parts = [_gen_chunk(j) for j in jobs]
    else:
        parts = get_pool().map(_gen_chunk, jobs, chunksize=1)
    return [t for p in parts for t in p]


def validate_traces(ctx: Ctx, traces: list, entities, keys, toks, op_kinds, devs, what: str):
    f = ctx.tmp(f"tag_traces_{what}.json")
    f.write_text(json.dumps(traces))
    cfg = cfg_text("TSpec", entities, keys, toks, 100000, 3, op_kinds, devs,
                   invariants=STATE_INVS, properties=["TStepRefines", "TNoResurrection"])
    res = run_tlc("seq/Tags_Trace.tla", cfg, ctx.scratch, workers=1, env={"TRACE_FILE": str(f)},
                  timeout=1500)
    if res.error:
        ctx.require(False, f"TLC failed on trace validation ({what}): {res.error}\n{res.out[-2000:]}")
    ctx.add_tlc(res)
    verdicts = {v[0]: v[1:] for v in res.recs("VERDICT")}
    return verdicts, res


# ---- probes: which deviations does this tree have? -------------------------------------------------
def probe(world: World) -> dict:
    H = lambda n, kvs=(), keys=(): {"n": n, "e": "e1", "kvs": [list(p) for p in kvs], "keys": list(keys)}  # noqa
    found = {}
    ents = ["e1"]

    def run(ops):
        world.reset()
        out = []
        for op in ops:
            err = world.apply(op)
            out.append({"op": fmt_op(op), "err": err, "cur": sets_of(world.current(ents))["e1"],
                        "error": getattr(world, "last_error", None) if err else None})
        return out

    r = run([H("add", [("k1", "null")]), H("rm", [("k1", "null")])])
    if r[-1]["cur"] != []:
        found["NullNotDeletable"] = r
    r = run([H("add", [("k1", "i1"), ("k1", "i1")])])
    if r[-1]["err"] or r[-1]["cur"] != [["k1", "i1"]]:
        found["DupPairRaises"] = r
    r = run([H("add", [("k1", "i1"), ("k2", "s1")]), H("rm")])
    if r[-1]["cur"] != [["k1", "i1"], ["k2", "s1"]]:
        found["EmptyRmDeletesAll"] = r
    r = run([H("add", [("k1", "i1")]), H("rm", [("k1", "i1")]), H("record", [("k1", "i1")])])
    if r[-1]["cur"] != [["k1", "i1"]]:
        found["PlainNoRevive"] = r
    r = run([H("add", [("k1", "i1")]), H("update_tags", [], ["k1"])])
    if r[-1]["cur"] != []:
        found["UpdateTagsEmptyNoop"] = r
    world.reset()
    return found


WHAT = {
    "NullNotDeletable": "`redun tag rm <id> k=null` does not remove the pair: delete_tags compares the "
                        "JSON column with CAST(NULL AS JSON), which is never true, so a pair whose value "
                        "is JSON null cannot be removed by pair (only by key)",
    "DupPairRaises": "the same pair twice in one command (`redun tag add <id> k=1 k=1`, also `tag update`) "
                     "builds two Tag rows with one tag_hash and dies with IntegrityError; nothing is added",
    "EmptyRmDeletesAll": "`redun tag rm <id> --` (no pair, no key) removes every tag of the entity: "
                         "delete_tags builds or_() of no condition, which filters nothing",
}


# ---- the real CLI as a cross-check of the call mapping ----------------------------------------------
def cli_channel(ctx: Ctx, behs: list, stats: dict) -> None:
    """A few behaviours through `redun tag add/update/rm` itself: a new RedunClient per command
    (in-process) on a file database, observed through a separate backend connection."""
    import contextlib
    import io

    from redun.backends.db import RedunBackendDb, Tag, TagEdit
    from redun.cli import RedunClient

    d = ctx.tmp("cli/.redun/redun.ini").parent
    (d / "redun.ini").write_text("[backend]\ndb_uri = sqlite:///redun.db\n")
    b = RedunBackendDb(db_uri=f"sqlite:///{d}/redun.db")
    b.load()
    w = World.__new__(World)
    w.backend, w.Tag, w.TagEdit = b, Tag, TagEdit
    w.ids = {e: b.record_value({"verif-entity": e}) for e in ("e1", "e2")}
    w.names = {v: k for k, v in w.ids.items()}
    w.names[""] = ""
    b.session.commit()
    for beh in behs:
        w.reset()
        for i, step in enumerate(beh["h"]):
            op, m = step["op"], step["obs"]
            args = ["redun", "--config", str(d), "tag", op["n"], w.ids[op["e"]]]
            if op["n"] == "rm":
                args.append("--")  # `redun tag rm <id> -- [key=value ...] [key ...]`
            args += [f"{k}={CLI_TEXT[v]}" for k, v in op["kvs"]] + list(op["keys"])
            err = 0
            buf = io.StringIO()
            client = RedunClient()
            try:
                with contextlib.redirect_stdout(buf), contextlib.redirect_stderr(buf):
                    client.execute(args)
            except (Exception, SystemExit):
                err = 1
            finally:  # the command's process ends here: its connection goes away
                cb = getattr(getattr(client, "scheduler", None), "backend", None)
                if cb is not None and getattr(cb, "session", None) is not None:
                    cb.session.close()
                    if getattr(cb, "engine", None) is not None:
                        cb.engine.dispose()
            b.session.rollback()
            b.session.expire_all()
            ents = sorted(m["cur"].keys())
            o = {"cur": w.current(ents), "err": err}
            ctx.count_eval()
            if sets_of(o["cur"]) != sets_of(m["cur"]) or err != m["err"]:
                ctx.violation(f"CLI: after `redun {' '.join(args[3:])}` the current tags differ from Tags.tla: "
                              f"model {sets_of(m['cur'])} err={m['err']}, code {sets_of(o['cur'])} err={err}",
                              {"source": "cli", "behaviour": beh, "at": i, "impl": o})
                break
        stats["cli_behaviours"] += 1
        ctx.count_impl_trace()


def run(ctx: Ctx) -> None:
    try:
        _run(ctx)
    finally:
        close_pool()


def _run(ctx: Ctx) -> None:
    ctx.assume("SQLite backend, one session, no concurrent writer",
               "values from a fixed set of JSON kinds (int, float, string, null, true, list, object)",
               "a failing command is followed by a fresh session (rollback), as a new CLI process would be")
    phases: dict = {}

    def phase(name):
        phases[name] = round(ctx.elapsed(), 1)
        ctx.note("phase_end_s", phases)

    world = World()
    ctx.require(all(hasattr(world.backend, a) for a in ("record_tags", "delete_tags", "update_tags", "get_tags")),
                "backend tag API missing")

    # ---- 0. which deviations are built into this tree (witness histories on the real code) ------
    found = probe(world)
    for dev, key in CLI_DEVS.items():
        if dev in found:
            ctx.violation(WHAT[dev], {"deviation": dev, "witness": found[dev]}, key=key)
    code_devs = [d for d in ALL_DEVS if d in found]
    ctx.note("deviations_present_in_code", code_devs)
    ctx.note("outside_scope_observations", {d: [r["op"] for r in found[d]] for d in EXTRA_DEVS if d in found})

    # ---- 1. model checking (the as-built machine with every deviation) ------------------------------
    E1, E2, K1, K2 = ["e1"], ["e1", "e2"], ["k1"], ["k1", "k2"]
    props = ["StepRefines", "NoResurrection"]
    V3 = ["i1", "s1", "null"]
    if ctx.quick:
        mains = [(E2, K2, V3, 4, 1, CLI_OPS)]
        wide = None  # quick: two-argument calls are checked in the tree run of step 2, the neighbouring API in thorough
    else:
        mains = [(E2, K2, V3, 5, 1, CLI_OPS), (E1, K2, ["i1", "null"], 3, 2, CLI_OPS)]
        wide = (E1, K2, ["i1", "null"], 3, 2, ALL_OPS)
    for (ents, keys, vals, depth, margs, kinds) in mains + ([wide] if wide else []):
        cfg = cfg_text("Spec", ents, keys, vals, depth, margs, kinds, ALL_DEVS, STATE_INVS, props)
        res = expect_clean(run_tlc("seq/Tags.tla", cfg, ctx.scratch, timeout=3000, heap="12g"),
                           f"Tags.tla invariants ({len(ents)} entities, {len(vals)} values, {depth} calls, "
                           f"{margs} arguments, {len(kinds)} call kinds)")
        ctx.add_tlc(res)
    ctx.note("model_configs", [f"Entities={m[0]} Keys={m[1]} Vals={m[2]} MaxOps={m[3]} MaxArgs={m[4]} OpKinds={m[5]}"
                               for m in mains + ([wide] if wide else [])])
    # model-level controls: the strict refinement holds on the repaired machine (Devs = {}) and fails
    # through the deviations
    # (quick: the guarded invariant CurrentIsModelUnlessDev of the runs above already says "only
    # through a deviation"; the repaired machine is checked on its own in the thorough tier)
    if not ctx.quick:
        cfg = cfg_text("Spec", E2, K2, ["i1", "null"], 4, 1, CLI_OPS, [],
                       STATE_INVS + ["CurrentIsModelStrict"], props)
        ctx.add_tlc(expect_clean(run_tlc("seq/Tags.tla", cfg, ctx.scratch, timeout=3000, heap="8g"),
                                 "Tags.tla strict refinement without deviations"))
    controls = [list(CLI_DEVS)] if ctx.quick else [[d] for d in CLI_DEVS]
    for devs in controls:
        cfg = cfg_text("Spec", E1, K1, ["i1", "null"], 3, 2, CLI_OPS, devs, ["CurrentIsModelStrict"])
        ctx.add_tlc(expect_violation(run_tlc("seq/Tags.tla", cfg, ctx.scratch, workers=2, timeout=600),
                                     "CurrentIsModelStrict", f"strict refinement must fail through {devs}"))
    if not ctx.quick:
        cfg = cfg_text("Spec", E1, K1, ["i1", "s1"], 3, 1, CLI_OPS, [], ["UniqueCurrentPair"])
        ctx.add_tlc(expect_violation(run_tlc("seq/Tags.tla", cfg, ctx.scratch, workers=2, timeout=600),
                                     "UniqueCurrentPair", "documented control: multiplicity two is reachable"))

    phase("model_checking")
    stats = {"behaviours": 0, "dev_behaviours": 0, "asbuilt_drift": 0, "cli_behaviours": 0}

    # ---- 2. spec -> code: exhaustive trees (machine with the deviations this tree has) -------------
    if ctx.quick:
        trees = [(E1, K1, ["i1", "null"], 2, 2, CLI_OPS)]   # the neighbouring API: thorough tier only
    else:
        trees = [(E1, K2, ["i1", "null"], 3, 1, CLI_OPS),
                 (E2, K1, ["i1", "null"], 3, 1, CLI_OPS), (E1, K1, ["i1", "null"], 3, 1, ALL_OPS),
                 (E1, K1, ["i1", "null"], 2, 2, ALL_OPS)]
    tree_behs: list = []
    for (ents, keys, vals, depth, margs, kinds) in trees:
        gcfg = cfg_text("GSpec", ents, keys, vals, depth, margs, kinds, code_devs, ["Emit"] + STATE_INVS)
        g = run_tlc("seq/Tags_Gen.tla", gcfg, ctx.scratch, workers=4, timeout=1500, heap="8g")
        ctx.require(g.ok, f"Tags_Gen exhaustive failed: {g.error} {g.violated}\n{g.out[-1500:]}")
        ctx.add_tlc(g)
        behs = g.recs("BEH")
        ctx.require(len(behs) >= 100, f"too few behaviours from TLC: {len(behs)}")
        replay_all(ctx, behs, f"tlc-tree-{depth}x{margs}", stats)
        tree_behs = tree_behs or behs
    mid = tree_behs[len(tree_behs) // 2]
    ctx.sample({"source": "tlc-exhaustive-tree", "calls": [fmt_op(s["op"]) for s in mid["h"]],
                "model_current_after_each": [sets_of(s["obs"]["cur"]) for s in mid["h"]]})

    phase("trees")
    # ---- 3. spec -> code: long simulated behaviours (one random call per step) ----------------------
    nsim = ctx.pick(250, 3000)
    depth = ctx.pick(7, 9)
    scfg = cfg_text("RSpec", E2, K2, ["i1", "f1", "s1", "null", "true"], depth, 2, CLI_OPS, code_devs, ["Emit"] + STATE_INVS)
    sres = run_tlc("seq/Tags_Gen.tla", scfg, ctx.scratch, workers=1, simulate=f"num={nsim}",
                   depth=depth + 1, seed=ctx.seed + 1, deadlock=False, timeout=1500)
    ctx.require(sres.error is None and not sres.violated, f"simulate failed: {sres.error}\n{sres.out[-1500:]}")
    ctx.add_tlc(sres)
    sbehs = sres.recs("BEH")
    ctx.require(len(sbehs) > nsim // 2, f"too few simulated behaviours: {len(sbehs)}")
    replay_all(ctx, sbehs, f"tlc-simulate-{depth}", stats)
    ctx.sample({"source": "tlc-simulate", "calls": [fmt_op(s["op"]) for s in sbehs[0]["h"]]})

    phase("simulate")
    # ---- 3b. the same calls through the real `redun tag` commands -----------------------------------
    ntree, nlong = ctx.pick(8, 80), ctx.pick(2, 20)
    cli_tree = [b for b in tree_behs if all(st["op"]["n"] in CLI_OPS for st in b["h"])]
    stride = max(1, len(cli_tree) // ntree)
    cli_channel(ctx, cli_tree[::stride][:ntree] + sbehs[:nlong], stats)

    phase("cli")
    # ---- 4. code -> spec: random histories validated by TLC ---------------------------------------
    ents3, keys3 = ["e1", "e2"], ["k1", "k2", "k3"]
    toks = ["i1", "i2", "f1", "s1", "sa", "null", "true", "l1", "o1"]
    batches = [(CLI_OPS, ctx.pick(150, 2000), "cli")]
    if not ctx.quick:
        batches.append((ALL_OPS, 500, "api"))
    for kinds, ntr, tag in batches:
        traces = gen_traces(ctx, ntr, ents3, keys3, toks, kinds)
        # negative controls: (a) one value of one recorded get_tags observation flipped, (b) an edge
        # closing a cycle added to one recorded graph; TLC must reject exactly these
        i1 = next(i for i, t in enumerate(traces) if any(s["obs"]["cur"]["e1"] for s in t["steps"][2:]))
        bad = copy.deepcopy(traces[i1])
        k = next(i for i, s in enumerate(bad["steps"]) if i >= 2 and s["obs"]["cur"]["e1"])
        pair = bad["steps"][k]["obs"]["cur"]["e1"][0]
        pair[1] = "i2" if pair[1] != "i2" else "i1"
        i2 = next(i for i, t in enumerate(traces) if t["edges"])
        bad2 = copy.deepcopy(traces[i2])
        p, c = bad2["edges"][0]
        bad2["edges"].append([c, p])
        batch = traces + [bad, bad2]
        verdicts, tres = validate_traces(ctx, batch, ents3, keys3, toks, kinds, code_devs, tag)
        ctx.require(len(verdicts) == len(batch) or bool(tres.violated),
                    f"verdicts {len(verdicts)} != traces {len(batch)}\n{tres.out[-1500:]}")
        if tres.violated:
            ctx.violation(f"invariant {tres.violated} of Tags.tla violated along a recorded history",
                          {"out": tres.out[-3000:]})
            continue
        vb, vb2 = verdicts[len(batch) - 1], verdicts[len(batch)]
        o1 = verdicts[i1 + 1]  # (if the uncorrupted source is itself rejected earlier, so is the control)
        ctx.negative_control(vb[0] == "step" and (vb[1] == k + 1 if (o1[0] != "step" or o1[1] > k + 1) else vb[1] <= k + 1),
                             f"[{tag}] flipped value in a recorded get_tags observation must be rejected at that call")
        ctx.negative_control(vb2[0] == "cyclic" or (verdicts[i2 + 1][0] == "step" and vb2[0] == "step"),
                             f"[{tag}] recorded edit graph with a cycle must be rejected")
        for tid in range(1, len(traces) + 1):
            verdict, pos, drift, devs = verdicts[tid]
            tr = traces[tid - 1]
            ctx.count_eval()
            ctx.count_impl_trace()
            stats["behaviours"] += 1
            stats["dev_behaviours"] += 1 if devs else 0
            if tr["edges"]:
                ctx.distinct([s["op"] for s in tr["steps"]])
            if drift:
                stats["asbuilt_drift"] += 1
                stats.setdefault("drift_example", {"source": f"recorded-{tag}",
                                                   "ops": [fmt_op(s["op"]) for s in tr["steps"]]})
            if verdict == "step" and len(ctx.violations) < MAX_VIOL:
                st = tr["steps"][pos - 1]
                ctx.violation(f"recorded history rejected by Tags_Trace at call {pos} ({fmt_op(st['op'])}): "
                              f"code cur={sets_of(st['obs']['cur'])} err={st['obs']['err']}",
                              {"source": f"recorded-{tag}", "trace": tr, "at": pos - 1})
            elif verdict == "cyclic":
                ctx.violation("the recorded TagEdit graph has a cycle", {"source": f"recorded-{tag}", "trace": tr})
        if tag == "cli":
            ctx.sample({"source": "recorded-history", "calls": [fmt_op(s["op"]) for s in traces[0]["steps"]],
                        "current_after_each": [sets_of(s["obs"]["cur"]) for s in traces[0]["steps"]]})
    phase("traces")
    ctx.note("replay_stats", stats)
    ctx.note("asbuilt_drift", stats["asbuilt_drift"])
    ctx.note("multiplicity_note", "add k=1; update k=\"1\"; add k=\"1\" leaves two current rows for one pair "
                                  "(get_tags returns the value twice); compared as-built, not part of the set contract")


def replay(ctx: Ctx, rec: dict) -> None:
    r = rec["replay"]
    world = World()
    if "deviation" in r:
        found = probe(world)
        if r["deviation"] in found:
            ctx.violation(WHAT.get(r["deviation"], r["deviation"]), {"deviation": r["deviation"],
                          "witness": found[r["deviation"]]}, key=CLI_DEVS.get(r["deviation"]))
    elif "behaviour" in r and r.get("source") != "cli":
        res = replay_one(world, r["behaviour"])
        if res["status"] == "viol":
            ctx.violation(res["what"], {"behaviour": r["behaviour"], "at": res["at"]})
    elif "trace" in r:
        tr = r["trace"]
        ents = sorted(tr["steps"][0]["obs"]["cur"].keys())
        world.reset()
        steps = []
        for s in tr["steps"]:
            err = world.apply(s["op"])
            steps.append({"op": s["op"], "obs": world.obs(ents, err)})
        g = world.graph()
        fresh = {"steps": steps, "nodes": g["nodes"], "edges": g["edges"]}
        devs = [d for d in ALL_DEVS if d in probe(World())]
        kinds = ALL_OPS if any(s["op"]["n"] in ("record", "update_tags") for s in steps) else CLI_OPS
        toks = sorted({v for s in steps for _, v in s["op"]["kvs"]} | {"i1", "null"})
        keys = sorted({k for s in steps for k, _ in s["op"]["kvs"]} | {k for s in steps for k in s["op"]["keys"]} | {"k1"})
        verdicts, _ = validate_traces(ctx, [fresh], ents, keys, toks, kinds, devs, "replay")
        if verdicts[1][0] != "ok":
            ctx.violation(f"replayed history rejected ({verdicts[1][0]}) at call {verdicts[1][1]}", {"trace": fresh})
    else:
        run(ctx)
    close_pool()
