"""
C18  Expression identity matches the call it denotes.

Spec: spec/common/Hashing.tla (ExprPre / Denote / ExprLaw), spec/hash/ExprUniverse.tla (bounded
universe), ExprHash.tla (all pairs), ExprLife.tla (get_hash / evaluate / pickle round trip),
ExprHash_Trace.tla (recorded groups).

  TLC      LawIdeal (the pre-image scheme without deviations separates exactly the denoted calls),
           LawUnlessSched (as built, the law fails only between scheduler expressions), control:
           LawAsBuilt is violated.  ExprLife: HashStable, RoundTripOK.
  spec->code  every item of the universe is built on the real code (tasks / scheduler tasks from a
           generated module, .options(), .export_options() -- also equal exported names with different
           values, through the api and the constructor --, nested expressions, operator and value
           expressions); for every pair the real get_hash() equality is compared with the law.
           Every life-cycle behaviour is replayed on a real expression (pickle round trips).
  code->spec  random groups of deeper expressions are built, hashed, recorded as (abstract fields,
           equality classes) and judged pair by pair by TLC.
"""

from __future__ import annotations

import copy
import pickle

from ..core import Ctx, MachineryError
from ..hashlaw import Case, GenModules, TagSpy, classes, fresh_scheduler, judge, note_judgement, timed, tlc, write_json
from ..tlc import expect_clean, expect_violation

META = {
    "level": "model_checking",
    "level_text": "TLC checks, for every pair of expressions of a bounded universe (4 kinds, names, "
                  "argument tuples incl. nested expressions, call-time options, exported options incl. "
                  "equal exported names with different values, api and constructor route), "
                  "that the pre-image scheme separates exactly the denoted calls, and that the "
                  "as-built scheme fails only between scheduler expressions; every item and pair is "
                  "materialised on redun.expression and the equality pattern of real get_hash() "
                  "values compared; pickle round-trip behaviours are replayed; random deeper groups "
                  "are recorded and judged by TLC.",
    "level_note": "Hashes are modelled as injective constructors (sha512 collisions and C14 out of "
                  "scope); argument values are small ints; option values are strings; two option "
                  "dicts written in different key order are 'unspecified' (the property is one-"
                  "directional).",
    "technique": "explicit TLA+ spec + TLC exhaustive pairwise check; spec->code materialisation of "
                 "every case; code->spec batched validation of recorded equality classes by TLC",
    "rule": "a case is a pair of abstract expressions; distinct = distinct pair; non-trivial = two "
            "different constructions of the same kind and name (the hash has to separate or "
            "identify them by arguments / options / exports alone)",
}

SIMPLE_NAMES = {"n1": "sub", "n2": "rsub", "n3": "radd"}
SIMPLE_OPS = ["add", "radd", "sub", "rsub", "mul", "rmul", "getitem"]
DEVS = ["SchedNoOptions"]
KEYS = {"SchedNoOptions": "scheduler-expression-options-not-hashed"}


def gen_source(ns: str) -> str:
    lines = ["from redun import task", "from redun.task import scheduler_task", "", "TASKS = {}",
             "SCHED = {}", ""]
    for n in ("n1", "n2", "n3"):
        lines += [f"@task(namespace={ns!r}, name={n!r})",
                  f"def t_{n}(*args, **kwargs):",
                  "    return [list(args), kwargs]",
                  f"TASKS[{n!r}] = t_{n}", ""]
    for n in ("n1", "n2", "n3"):
        lines += [f"@scheduler_task(namespace={ns!r}, name={n!r})",
                  f"def s_{n}(scheduler, parent_job, sexpr, *args, **kwargs):",
                  "    return scheduler.evaluate([list(args), kwargs], parent_job=parent_job)",
                  f"SCHED[{n!r}] = s_{n}", ""]
    return "\n".join(lines) + "\n"


class World:
    def __init__(self, ctx: Ctx):
        self.ns = f"c18_{ctx.seed}"
        self.mod = GenModules(ctx, "c18").load(gen_source(self.ns))
        import redun.expression as ex

        self.ex = ex

    def atom(self, a: str):
        return int(a)

    def arg(self, a: dict):
        return self.atom(a["v"]) if a["k"] == "atom" else self.build(a["e"])

    def build(self, e: dict):
        ex = self.ex
        pos = tuple(self.arg(a) for a in e["pos"])
        kw = {k: self.arg(a) for k, a in e["kw"]}
        kind = e["kind"]
        if kind in ("task", "sched"):
            if e["via"] == "api":
                t = (self.mod.TASKS if kind == "task" else self.mod.SCHED)[e["name"]]
                if e["opts"]:
                    t = t.options(**{k: v for k, v in e["opts"]})
                if e["expo"]:
                    t = t.export_options(**{k: v for k, v in e["expo"]})
                return t(*pos, **kw)
            opts: dict = {}
            for k, v in list(e["opts"]) + list(e["expo"]):
                opts[k] = v
            cls = ex.TaskExpression if kind == "task" else ex.SchedulerExpression
            return cls(f"{self.ns}.{e['name']}", pos, kw, task_options=opts,
                       export_options={k for k, _ in e["expo"]})
        if kind == "simple":
            # abstract names stand for real operator names, a plain operator and its reflected form among them
            return ex.SimpleExpression(SIMPLE_NAMES.get(e["name"], e["name"]), pos, kw)
        if kind == "value":
            return ex.ValueExpression(self.arg(e["pos"][0]))
        raise MachineryError(f"unknown kind {kind}")


def describe(c: Case) -> str:
    a, b = c.info["a"], c.info["b"]
    return (f"expressions {short(a)} and {short(b)} have {'the same' if c.real == 's' else 'different'} "
            f"hash, but denote {'different calls' if c.law == 'd' else 'the same call'}")


def prefer(c: Case):
    """Witness choice: plain .options(...) differences on flat expressions first."""
    a, b = c.info["a"], c.info["b"]
    fancy = sum(len(e["expo"]) + (e["via"] == "ctor") + sum(x["k"] == "expr" for x in e["pos"]) + len(e["kw"])
                + (0 if e["opts"] else 1) for e in (a, b))
    return (0 if c.law == "d" else 1, fancy, len(short(a)) + len(short(b)))


def short(e: dict) -> str:
    def arg(a):
        return a["v"] if a["k"] == "atom" else short(a["e"])

    if e["kind"] == "value":
        return f"ValueExpression({arg(e['pos'][0])})"
    head = {"task": "task", "sched": "scheduler_task", "simple": "op"}[e["kind"]] + ":" + e["name"]
    if e["opts"]:
        head += ".options(" + ", ".join(f"{k}={v}" for k, v in e["opts"]) + ")"
    if e["expo"]:
        head += ".export_options(" + ", ".join(f"{k}={v}" for k, v in e["expo"]) + ")"
    if e["kind"] in ("task", "sched") and e["via"] == "ctor":
        head += "[ctor]"
    args = [arg(a) for a in e["pos"]] + [f"{k}={arg(a)}" for k, a in e["kw"]]
    return head + "(" + ", ".join(args) + ")"


def expo_value_pairs(cases) -> dict:
    """Cases whose two expressions have equal exported option names and differ only in their values."""
    out: dict = {}
    for c in cases:
        a, b = c.info["a"], c.info["b"]
        if (a["expo"] != b["expo"] and [k for k, _ in a["expo"]] == [k for k, _ in b["expo"]]
                and all(a[f] == b[f] for f in ("kind", "name", "pos", "kw", "opts", "via"))):
            k = f"{a['kind']}/{a['via']}"
            out[k] = out.get(k, 0) + 1
            if c.law != "d":
                raise MachineryError(f"law does not separate exported option values: {short(a)} / {short(b)}")
    return out


def cfg(spec: str, nn, na, no, ne, nest, maxops, invs) -> str:
    return (f"SPECIFICATION {spec}\nCONSTANTS\n NNames = {nn}\n NAtoms = {na}\n NOpts = {no}\n NExpo = {ne}\n"
            f" Nest = {nest}\n MaxOps = {maxops}\n" + "".join(f"INVARIANT {i}\n" for i in invs)
            + "CHECK_DEADLOCK FALSE\n")


# ---------------------------------------------------------------------------------------------
def forward(ctx: Ctx, w: World, consts: tuple, what: str, spy: TagSpy) -> list[Case]:
    res = expect_clean(tlc(ctx, f"pairs: {what}", "hash/ExprHash.tla",
                           cfg("Spec", *consts, ["LawIdeal", "LawUnlessSched", "Emit"]), timeout=1500,
                           long_run=not ctx.quick, workers=ctx.pick(6, 8)),
                       f"ExprHash.tla ({what})")
    ctx.add_tlc(res)
    items = {i: e for i, e in res.recs("ITEM")}
    pairs = res.recs("CASE")
    n = len(items)
    ctx.require(n > 20 and len(pairs) == n * (n + 1) // 2,
                f"ExprHash emitted {n} items / {len(pairs)} pairs")
    real, tag = {}, {}
    for i, e in items.items():
        x = w.build(e)
        h1 = x.get_hash()
        # determinism of the construction itself: a second, independent construction
        h2 = w.build(e).get_hash()
        real[i] = h1
        if h1 != h2:
            ctx.violation(f"two identical constructions of {short(e)} hash differently",
                          {"case": {"a": e, "b": e}})
        tag[i] = spy.tag_of.get(h1)
        ctx.count_impl_trace()
    cases = []
    for i, j, law, vstr in pairs:
        r = "s" if real[i] == real[j] else "d"
        cases.append(Case(law, "".join(vstr), r, {"a": items[i], "b": items[j]}, what))
        ctx.count_eval()
        a, b = items[i], items[j]
        if i != j and a["kind"] == b["kind"] and a["name"] == b["name"]:
            ctx.distinct([a, b])
    # leading tags seen on the real code must be the model's (KindTag)
    want = {"task": "TaskExpression", "sched": "SchedulerExpression", "simple": "SimpleExpression",
            "value": "ValueExpression"}
    for i, e in items.items():
        if tag[i] is None:
            raise MachineryError("hash_struct spy saw no pre-image for an expression hash (seam moved)")
        if tag[i] != want[e["kind"]]:
            ctx.violation(f"pre-image of {short(e)} starts with tag {tag[i]!r}, expected {want[e['kind']]!r}",
                          {"case": {"a": e, "b": e}})
    return cases


def life(ctx: Ctx, w: World, consts: tuple) -> None:
    res = expect_clean(tlc(ctx, "life cycle", "hash/ExprLife.tla",
                           cfg("LSpec", *consts, ["HashStable", "RoundTripOK", "LEmit"]), timeout=900),
                       "ExprLife.tla")
    ctx.add_tlc(res)
    behs = res.recs("BEH")
    ctx.require(len(behs) > 100, f"too few life-cycle behaviours: {len(behs)}")
    nviol = 0
    for e, hist in behs:
        ctx.count_eval()
        ctx.count_impl_trace()
        bad = replay_life(w, e, hist)
        if any(op == "pickle" for op, _ in hist):
            ctx.distinct(["life", e, [op for op, _ in hist]])
        if bad and nviol < 3:
            nviol += 1
            ctx.violation(f"{short(e)}: {bad}", {"life": {"e": e, "hist": hist}})
    ctx.sample({"source": "ExprLife behaviour", "expr": short(behs[len(behs) // 2][0]),
                "ops": behs[len(behs) // 2][1]})


def _state(x) -> dict:
    st = x.__getstate__()
    return {k: st.get(k) for k in ("task_name", "func_name", "args", "kwargs", "task_options",
                                   "export_options", "value", "value_type", "length")}


def _obs(x) -> list:
    # NB: Expression.__getattr__ is a lazy operator, so only the instance dict can be trusted
    d = x.__dict__
    if "call_hash" in d:
        call = "none" if d["call_hash"] is None else "set"
    else:       # task / scheduler expressions must carry the attribute (else x.call_hash is a lazy getattr)
        call = "missing" if "task_name" in d else "none"
    ups = d.get("_upstreams")
    if ups is None:
        raise MachineryError("Expression._upstreams is gone (seam of C18 moved)")
    if "args" in d:
        initial = len(ups) == 2 and ups[0] is x.args and ups[1] is x.kwargs
    else:
        initial = len(ups) == 0
    return [call, "initial" if initial else "derived"]


def replay_life(w: World, e: dict, hist: list):
    x = w.build(e)
    h0, s0 = x.get_hash(), _state(x)
    for n, (op, mobs) in enumerate(hist):
        if op == "hash":
            x.get_hash()
        elif op == "eval":
            # what the scheduler does when it evaluates the expression (job.expr.call_hash = ...,
            # derive_expression / duplicate detection set _upstreams)
            if e["kind"] in ("task", "sched"):
                x.call_hash = "c" * 40
            x._upstreams = [w.ex.ValueExpression(0)]
        elif op == "pickle":
            x = pickle.loads(pickle.dumps(x))
        if x.get_hash() != h0:
            return f"hash changed after step {n + 1} ({op})"
        if _state(x) != s0:
            return f"arguments / options / exports changed after step {n + 1} ({op})"
        if _obs(x) != list(mobs):
            return f"bookkeeping after step {n + 1} ({op}) is {_obs(x)}, model {mobs}"
    return None


# ---------------------------------------------------------------------------------------------
OPT_POOL = [[], [["tag", "A"]], [["tag", "B"]], [["tag", "A"], ["mem", "1"]], [["mem", "1"], ["tag", "A"]],
            [["mem", "2"]], [["tag", "A"], ["mem", "1"], ["zone", "x"]]]
# exported options: the same names occur with different values (the value of an exported option is
# part of the denoted call, the hash of the names alone does not separate the calls)
EXPO_POOL = [[], [], [["lim", "1"]], [["lim", "2"]], [["tag", "B"]], [["tag", "A"]],
             [["lim", "1"], ["grp", "g"]], [["lim", "2"], ["grp", "g"]], [["lim", "1"], ["grp", "h"]]]
OPT_VALUES = {"tag": ["A", "B"], "mem": ["1", "2"], "zone": ["x", "y"], "lim": ["1", "2"], "grp": ["g", "h"]}


def rand_expr(rng, depth: int) -> dict:
    def arg(d):
        if d > 0 and rng.random() < 0.35:
            return {"k": "expr", "e": rand_expr(rng, d - 1)}
        return {"k": "atom", "v": str(rng.randint(1, 3))}

    kind = rng.choice(["task", "task", "sched", "sched", "simple", "value"])
    if kind == "value":
        return {"kind": "value", "name": "-", "pos": [{"k": "atom", "v": str(rng.randint(1, 3))}], "kw": [],
                "opts": [], "expo": [], "via": "ctor"}
    if kind == "simple":
        return {"kind": "simple", "name": rng.choice(SIMPLE_OPS),
                "pos": [arg(depth), arg(0)], "kw": [], "opts": [], "expo": [], "via": "api"}
    pos = [arg(depth) for _ in range(rng.randint(0, 2))]
    kw = [[k, arg(depth)] for k in rng.sample(["k", "m", "z"], rng.choice([0, 0, 1, 2]))]
    return {"kind": kind, "name": rng.choice(["n1", "n2", "n3"]), "pos": pos, "kw": kw,
            "opts": copy.deepcopy(rng.choice(OPT_POOL)), "expo": copy.deepcopy(rng.choice(EXPO_POOL)),
            "via": rng.choice(["api", "api", "ctor"])}


def mutate(rng, e: dict) -> dict:
    e = copy.deepcopy(e)
    # pick a random node
    nodes = []

    def walk(x):
        nodes.append(x)
        for a in x["pos"]:
            if a["k"] == "expr":
                walk(a["e"])
        for _, a in x["kw"]:
            if a["k"] == "expr":
                walk(a["e"])

    walk(e)
    x = rng.choice(nodes)
    what = rng.choice(["opts", "opts", "expo", "expoval", "expoval", "optval", "name", "atom", "kworder", "kind"])
    if x["kind"] in ("task", "sched"):
        if what in ("expoval", "optval"):
            # same option names, another value for one of them
            pairs = x["expo" if what == "expoval" else "opts"]
            if not pairs and what == "expoval":
                x["expo"] = copy.deepcopy(rng.choice([p for p in EXPO_POOL if p]))
                pairs = x["expo"]
            if pairs:
                kv = rng.choice(pairs)
                kv[1] = rng.choice([v for v in OPT_VALUES[kv[0]] if v != kv[1]])
        elif what == "opts":
            x["opts"] = copy.deepcopy(rng.choice(OPT_POOL))
        elif what == "expo":
            x["expo"] = copy.deepcopy(rng.choice(EXPO_POOL))
        elif what == "name":
            x["name"] = rng.choice(["n1", "n2", "n3"])
        elif what == "kworder":
            x["kw"] = list(reversed(x["kw"]))
        elif what == "kind":
            x["kind"] = "task" if x["kind"] == "sched" else "sched"
            x["via"] = "api"
    elif x["kind"] == "simple" and what in ("name", "kind", "opts"):
        x["name"] = rng.choice(SIMPLE_OPS)
    atoms = [a for a in x["pos"] if a["k"] == "atom"]
    if what == "atom" and atoms:
        rng.choice(atoms)["v"] = str(rng.randint(1, 3))
    return e


def rand_group(rng) -> list:
    base = rand_expr(rng, rng.randint(0, 2))
    items = [base, copy.deepcopy(base)]
    for _ in range(rng.randint(3, 6)):
        items.append(mutate(rng, rng.choice(items)))
    return items


def validate_groups(ctx: Ctx, groups: list, what: str):
    f = write_json(ctx.tmp(f"groups_{what}.json"), groups)
    res = tlc(ctx, f"recorded groups ({what})", "hash/ExprHash_Trace.tla",
              "SPECIFICATION TSpec\nCHECK_DEADLOCK FALSE\n", env={"TRACE_FILE": str(f)}, timeout=900)
    if res.error or res.violated:
        raise MachineryError(f"TLC failed on recorded groups ({what}): {res.error} {res.violated}\n{res.out[-2000:]}")
    ctx.add_tlc(res)
    out = {tid: (npairs, bad) for tid, npairs, bad in res.recs("VERDICT")}
    ctx.require(len(out) == len(groups), f"verdicts {len(out)} != groups {len(groups)}")
    return out


def backward(ctx: Ctx, w: World, ngroups: int) -> list[Case]:
    groups = []
    for _ in range(ngroups):
        items = rand_group(ctx.rng)
        hs = [w.build(e).get_hash() for e in items]
        groups.append({"items": items, "cls": classes(hs)})
        ctx.count_impl_trace()
    # negative control: merge two observed classes whose expressions are of different kinds
    bad = None
    for g in groups:
        ks = [e["kind"] for e in g["items"]]
        idx = [(a, b) for a in range(len(ks)) for b in range(a + 1, len(ks))
               if ks[a] != ks[b] and "sched" not in (ks[a], ks[b])]
        if idx:
            bad = copy.deepcopy(g)
            a, b = idx[0]
            bad["cls"][b] = bad["cls"][a]
            break
    if bad is None:
        bad = {"items": [rand_expr(ctx.rng, 0) for _ in range(2)], "cls": [1, 1]}
        bad["items"][0]["kind"], bad["items"][0]["name"] = "simple", "add"
        bad["items"][1] = {"kind": "value", "name": "-", "pos": [{"k": "atom", "v": "1"}], "kw": [], "opts": [],
                           "expo": [], "via": "ctor"}
        a, b = 0, 1
    groups.append(bad)
    out = validate_groups(ctx, groups, "random")
    nb, badpairs = out[len(groups)]
    ctx.negative_control(any(p[0] == a + 1 and p[1] == b + 1 and "s" not in p[4] for p in badpairs),
                         "two recorded expressions of different kinds given one equality class must be "
                         "rejected by ExprHash_Trace under every deviation subset")
    cases = []
    for tid in range(1, len(groups)):
        npairs, badpairs = out[tid]
        ctx.count_eval(npairs)
        g = groups[tid - 1]
        if len(set(g["cls"])) > 1:
            ctx.distinct(g["items"])
        for a, b, r, law, vstr in badpairs:
            cases.append(Case(law, "".join(vstr), r, {"a": g["items"][a - 1], "b": g["items"][b - 1]},
                              "recorded-group"))
    ctx.sample({"source": "recorded group", "items": [short(e) for e in groups[0]["items"]],
                "observed_classes": groups[0]["cls"]})
    ctx.note("recorded_groups", len(groups) - 1)
    nval = 0
    for g in groups[:-1]:
        its = g["items"]
        nval += sum(1 for i in range(len(its)) for j in range(i + 1, len(its))
                    if its[i]["kind"] in ("task", "sched") and its[i]["expo"] != its[j]["expo"]
                    and [k for k, _ in its[i]["expo"]] == [k for k, _ in its[j]["expo"]]
                    and all(its[i][f] == its[j][f] for f in ("kind", "name", "pos", "kw", "opts", "via")))
    ctx.note("recorded_pairs_differing_only_in_exported_option_values", nval)
    return cases


# ---------------------------------------------------------------------------------------------
E2E_SRC = '''
from redun import task
from redun.scheduler import JobInfo
from redun.task import CacheScope, scheduler_task

@scheduler_task(namespace={ns!r})
def probe(scheduler, parent_job, sexpr, x):
    tag = sexpr.__getstate__()["task_options"].get("tag")
    return scheduler.evaluate(x, parent_job=parent_job).then(lambda v: [v, tag])

@task(namespace={ns!r})
def tprobe(x, tag=None):
    return [x, tag]

@task(namespace={ns!r})
def parent():
    return [probe.options(tag="A")(1), probe.options(tag="B")(1)]

@task(namespace={ns!r})
def parent_nested():
    return [tprobe(probe.options(tag="A")(1)), tprobe(probe.options(tag="B")(1))]

# exported options: same names, different values (the value travels in the job options)
# (cache_scope NONE: options are by design not part of the evaluation key, so with any caching the
# second JOB would be answered by the first; C18 is about the EXPRESSIONS being kept apart)
@task(namespace={ns!r}, cache_scope=CacheScope.NONE)
def flavor(x, job_info: JobInfo = JobInfo()):
    return job_info.options.get("flavor")

@task(namespace={ns!r}, cache_scope=CacheScope.NONE)
def via_child(x):
    return flavor(x)

@task(namespace={ns!r})
def parent_exported():
    return [flavor.export_options(flavor="a")(1), flavor.export_options(flavor="b")(1),
            via_child.export_options(flavor="c")(2), via_child.export_options(flavor="d")(2),
            probe.export_options(tag="A")(3), probe.export_options(tag="B")(3)]
'''


def end_to_end(ctx: Ctx) -> None:
    """The merge the property talks about, observed through a real scheduler run."""
    mod = GenModules(ctx, "c18e2e").load(E2E_SRC.format(ns=f"c18e2e_{ctx.seed}"))
    with fresh_scheduler() as s:
        got = s.run(mod.parent())
        got2 = s.run(mod.parent_nested())
        got3 = s.run(mod.parent_exported())
        # bookkeeping as the scheduler really fills it in, then a pickle round trip
        e = mod.tprobe(7, tag="x")
        s.run(e)
        filled = e.__dict__.get("call_hash") is not None
        e2 = pickle.loads(pickle.dumps(e))
        ctx.note("e2e_bookkeeping", {"call_hash_set_by_scheduler": filled,
                                     "cleared_by_round_trip": e2.__dict__.get("call_hash", 0) is None})
        if e2.get_hash() != e.get_hash() or e2.__dict__.get("call_hash", 0) is not None:
            ctx.violation("an evaluated TaskExpression does not come back from a pickle round trip with the same "
                          "hash and cleared call_hash", {"e2e": "round trip"})
    ctx.count_impl_trace(4)
    # two calls that differ only in the VALUE of an exported option, beneath one parent job, must
    # both run and see their own value (task, child of the task, scheduler task)
    want3 = ["a", "b", "c", "d", [3, "A"], [3, "B"]]
    ctx.note("e2e_exported_option_values", got3)
    if got3 != want3:
        ctx.violation("[flavor.export_options(flavor='a')(1), flavor.export_options(flavor='b')(1), "
                      "via_child.export_options(flavor='c')(2), via_child.export_options(flavor='d')(2), "
                      "probe.export_options(tag='A')(3), probe.export_options(tag='B')(3)] beneath one parent job "
                      f"returned {got3}, every call must see its own exported value: {want3}",
                      {"e2e": "parent_exported", "observed": got3})
    tags = [g[1] for g in got]
    tags2 = [g[0][1] for g in got2]
    ctx.note("e2e_probe_result", {"parent": got, "parent_nested": got2})
    for name, t in (("parent", tags), ("parent_nested", tags2)):
        if t == ["A", "B"]:
            continue
        if t in (["A", "A"], ["B", "B"]):
            ctx.violation(f"[probe.options(tag='A')(1), probe.options(tag='B')(1)] under one parent job is "
                          f"evaluated once: observed tags {t} (scheduler task run: {name})",
                          {"e2e": name, "observed": t}, key=KEYS["SchedNoOptions"])
        else:
            ctx.violation(f"scheduler-task probe returned unexpected tags {t}", {"e2e": name, "observed": t})


def run(ctx: Ctx) -> None:
    ctx.assume("hash_struct / sha512 are injective on the structures that occur (C14 and collision freedom)",
               "argument values are small ints, option values short strings (value hashing is C16)",
               "expressions are built through the public constructors, Task.options / export_options and "
               "operator overloading")
    w = World(ctx)
    cases: list[Case] = []
    with TagSpy() as spy:
        consts = ctx.pick((2, 2, 3, 2, 1, 3), (3, 3, 5, 4, 1, 4))
        with timed(ctx, "forward"):
            cases += forward(ctx, w, consts, "flat product + nested part", spy)
        ctx.require(spy.calls > 0, "hash_struct spy recorded nothing")
    # model-level control: with the deviation switched on the law must fail (TLC's LawUnlessSched
    # has shown: only between scheduler expressions).  Quick: read off the verdicts TLC emitted;
    # thorough: TLC itself must report LawAsBuilt violated.
    asbuilt_breaks = sum(1 for c in cases if c.law != "u" and c.vstr[-1] != c.law)
    ctx.require(asbuilt_breaks > 0, "as-built model never departs from the law: the deviation is not modelled")
    ctx.note("model_pairs_where_asbuilt_breaks_law", asbuilt_breaks)
    if not ctx.quick:
        ctl = tlc(ctx, "control LawAsBuilt", "hash/ExprHash.tla", cfg("Spec", 1, 1, 2, 1, 0, 1, ["LawAsBuilt"]),
                  workers=2)
        expect_violation(ctl, "LawAsBuilt", "ExprHash.tla LawAsBuilt control")
        ctx.add_tlc(ctl)
    j = judge(ctx, cases, DEVS, KEYS, describe, prefer=prefer)
    note_judgement(ctx, "spec_to_code", j)
    ex = [c for c in cases if c.law == "d" and c.info["a"]["kind"] == "task"]
    if ex:
        ctx.sample({"source": "ExprHash pair", "a": short(ex[len(ex) // 2].info["a"]),
                    "b": short(ex[len(ex) // 2].info["b"]), "law": "different", "real": ex[len(ex) // 2].real})
    ctx.note("pairs_differing_only_in_exported_option_values", expo_value_pairs(cases))
    un = [c for c in cases if c.law == "u"]
    ctx.note("option_order_pairs", {"n": len(un), "observed_different": sum(1 for c in un if c.real == "d")})

    with timed(ctx, "life"):
        life(ctx, w, (1, 1, 2, 2, 1, 3) if ctx.quick else (2, 2, 3, 2, 1, 4))

    with timed(ctx, "backward"):
        bcases = backward(ctx, w, ctx.pick(150, 5000))
    jb = judge(ctx, bcases, DEVS, KEYS, describe, prefer=prefer)
    note_judgement(ctx, "code_to_spec", jb)

    # a corrupted observation in the forward direction must be seen as a violation of the law
    c0 = next(c for c in cases if c.law == "d" and c.real == "d")
    ctx.negative_control(Case(c0.law, c0.vstr, "s", c0.info).violates,
                         "an observed hash equality flipped to 'same' for two different calls violates the law")
    with timed(ctx, "e2e"):
        end_to_end(ctx)


def replay(ctx: Ctx, rec: dict) -> None:
    r = rec["replay"]
    w = World(ctx)
    if "case" in r:
        a, b = r["case"]["a"], r["case"]["b"]
        hs = [w.build(a).get_hash(), w.build(b).get_hash()]
        out = validate_groups(ctx, [{"items": [a, b], "cls": classes(hs)}], "replay")
        cases = [Case(law, "".join(vstr), o, {"a": a, "b": b}, "replay") for _, _, o, law, vstr in out[1][1]]
        judge(ctx, cases, DEVS, KEYS, describe, prefer=prefer)
    elif "life" in r:
        bad = replay_life(w, r["life"]["e"], r["life"]["hist"])
        if bad:
            ctx.violation(f"{short(r['life']['e'])}: {bad}", r)
    elif "e2e" in r:
        end_to_end(ctx)
    else:
        run(ctx)
