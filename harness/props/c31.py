"""
C31  Value storage location is transparent.

Spec: spec/seq/ValueStore.tla -- table row (none | inline bytes | empty placeholder), value-store
object (present | missing), file-cache file, thresholds value_store_min_size / max_value_size;
record_value (= RecordAgain when repeated), a record that dies after ValueStore.put, get_value,
deletion of the store object / cache file, reopening with another threshold.  TLC: Get returns the
value whose hash is the key or "absent", never another value; the key does not depend on the
location; oversize is rejected and nothing is written; a value that has just been recorded reads
back -- which the code as built guarantees except through the named deviation
RerecordKeepsDanglingPlaceholder (the repaired machine, same run, always).

Binding, both directions, through a real RedunBackendDb (in-memory sqlite) configured with a
temp-dir value store and a FileCache-typed value class:
  spec -> code: every behaviour of ValueStore_Gen (exhaustive tree for small MaxOps, -simulate for
                longer ones) is replayed; after every step the outcome of record_value and
                get_value(key) of every known value are compared with the model.
  code -> spec: seeded random longer histories are executed, recorded and validated by TLC
                (ValueStore_Trace) with all invariants evaluated at every step.
"Missing" always means: the store is configured and the object is gone.
"""

from __future__ import annotations

import copy
import json
import logging
import os

from redun.value import FileCache

from ..core import Ctx, MachineryError
from ..tlc import expect_clean, expect_violation, run_tlc

META = {
    "level": "model_checking",
    "level_text": "TLC checks on every history of <= 5-6 operations (record, record again, a record "
                  "that dies after the store write, delete store object, delete cache file, reopen "
                  "with another threshold) over plain and FileCache-typed values of four size classes "
                  "that get returns the keyed value or absent, keys are location independent, oversize "
                  "is rejected untouched, and a just-recorded value reads back unless the named "
                  "deviation fired.  Every behaviour of a small exhaustive tree and simulated ones are "
                  "executed on a real RedunBackendDb with a temp-dir value store; random longer "
                  "executions are validated by TLC.",
    "level_note": "Size classes stand for concrete lengths away from the offload threshold (which the "
                  "code compares with sys.getsizeof, i.e. length + 33) and exactly at / one above "
                  "max_value_size; local file system store; store always configured; corruption of "
                  "store objects (as opposed to absence) is not modelled.",
    "technique": "explicit TLA+ spec (as-built + repaired machine, named deviation) + TLC exhaustive "
                 "check; spec->code behaviour replay on the real backend; code->spec batched trace "
                 "validation by TLC",
    "rule": "a case is one operation history; distinct = distinct (initial threshold, operation "
            "sequence); non-trivial = some value was offloaded to the store and some get returned "
            "absent for a value that had been recorded",
}

DEV = "RerecordKeepsDanglingPlaceholder"
KEY = "rerecord-dangling-placeholder"
WHAT = ("record_value returns early when the value row exists: a row that is an empty placeholder whose "
        "store object is gone stays a dangling placeholder when the value is recorded again with its bytes "
        "kept inline (threshold raised since), so the freshly recorded value reads as absent")
MAX = 3000
MIN = {0: 0, 3: 400, 100: 10 ** 9}   # model threshold -> value_store_min_size
TARGET = {"small": 140, "mid": 1000, "atmax": MAX, "over": MAX + 1}   # serialized length of plain values


class Data:
    """User type cached through a file (FileCache)."""

    def __init__(self, payload):
        self.payload = payload


class DataType(FileCache):
    type = Data
    base_path = "."   # set per run


def vkey(v) -> str:
    return json.dumps(v, separators=(",", ":"))


class World:
    """A real backend with a temp-dir value store; values are unique per behaviour (`uniq`)."""

    def __init__(self, ctx: Ctx):
        from redun.backends.db import RedunBackendDb, RedunDatabaseError
        from redun.utils import pickle_dumps

        logging.getLogger("redun").setLevel(logging.CRITICAL)
        self.RedunDatabaseError = RedunDatabaseError
        self.pickle_dumps = pickle_dumps
        self.root = ctx.tmp("c31")
        self.root.mkdir(parents=True, exist_ok=True)
        self.fc_dir = self.root / "fc"
        self.fc_dir.mkdir(exist_ok=True)
        DataType.base_path = str(self.fc_dir)
        self.b = RedunBackendDb(db_uri="sqlite:///:memory:",
                                config={"value_store_path": str(self.root / "vs"),
                                        "value_store_min_size": "0", "max_value_size": str(MAX)})
        self.b.load()
        if self.b.value_store is None or not hasattr(self.b, "value_store_min_size"):
            raise MachineryError("seam missing: RedunBackendDb.value_store / value_store_min_size")
        self.uniq = ""
        self.vals: dict[str, object] = {}
        self.keys: dict[str, str] = {}

    def begin(self, uniq: str, min0: int) -> None:
        self.uniq, self.vals, self.keys = uniq, {}, {}
        self.b.value_store_min_size = MIN[min0]

    # ---- values -------------------------------------------------------------------------------
    def value(self, v):
        k = vkey(v)
        if k in self.vals:
            return self.vals[k]
        kind, size, _ = v
        if kind == "plain":
            val = self._sized(lambda pad: ("c31", self.uniq, k, pad), TARGET[size])
        else:
            # the content of a FileCache value may be arbitrarily large: only the file name is stored
            val = Data(("c31", self.uniq, k, "z" * TARGET[size]))
        self.vals[k] = val
        return val

    def _sized(self, make, target: int):
        n = max(0, target - len(self.pickle_dumps(make(""))))
        for _ in range(50):
            d = len(self.pickle_dumps(make("p" * n))) - target
            if d == 0:
                return make("p" * n)
            n = max(0, n - d)
        raise MachineryError(f"cannot build a value of serialized length {target}")

    def ident(self, val):
        """Value returned by get_value -> model value (as JSON key) or 'other'."""
        p = val.payload if isinstance(val, Data) else val
        if isinstance(p, tuple) and len(p) == 4 and p[0] == "c31" and p[1] == self.uniq:
            kind = "fc" if isinstance(val, Data) else "plain"
            if json.loads(p[2])[0] == kind:
                return p[2]
        return "other"

    def fc_path(self, val) -> str:
        from redun.hashing import hash_bytes

        return os.path.join(str(self.fc_dir), hash_bytes(self.pickle_dumps(val)))

    # ---- operations -----------------------------------------------------------------------------
    def apply(self, op) -> dict:
        n = op["n"]
        res = ["none"]
        note = None
        if n == "record":
            val = self.value(op["v"])
            try:
                h = self.b.record_value(val)
                res = ["ok"]
                k = vkey(op["v"])
                if k in self.keys and self.keys[k] != h:
                    note = f"key changed: {self.keys[k]} -> {h}"
                self.keys.setdefault(k, h)
            except self.RedunDatabaseError:
                res = ["toolarge"]
            except Exception as e:  # anything else is an outcome the model does not have
                res = ["error"]
                note = f"record_value raised {type(e).__name__}: {e}"
        elif n == "putonly":
            val = self.value(op["v"])
            vi = self.b.type_registry.get_value(val)
            data = vi.serialize()
            h = vi.get_hash(data=data)
            self.b.value_store.put(h, data)
            self.keys.setdefault(vkey(op["v"]), h)
        elif n == "delstore":
            # (if the code put nothing there the model and the code differ in location only: the
            # deletion is a no-op and the reads that follow decide)
            h = self.keys.get(vkey(op["v"]))
            path = self.b.value_store.get_value_path(h) if h else ""
            if path and os.path.exists(path):
                os.remove(path)
        elif n == "delfile":
            path = self.fc_path(self.value(op["v"]))
            if os.path.exists(path):
                os.remove(path)
        elif n == "setmin":
            self.b.value_store_min_size = MIN[op["mn"]]
        else:
            raise MachineryError(f"unknown op {op}")
        gets = []
        for k, h in self.keys.items():
            try:
                val, ok = self.b.get_value(h)
            except Exception as e:  # neither the value nor absent
                gets.append([json.loads(k), ["error", type(e).__name__]])
                continue
            gets.append([json.loads(k), json.loads(self.ident(val)) if ok and self.ident(val) != "other"
                         else (["other"] if ok else ["absent"])])
        return {"res": res, "gets": gets, "note": note}

    def locations(self) -> dict:
        """Where the bytes are, observed at the database row / store / cache directory."""
        from redun.backends.db import Value as ValueRow

        out = {}
        for k, h in self.keys.items():
            row = self.b.session.get(ValueRow, h)
            st = "none" if row is None else ("placeholder" if len(row.value) == 0 else "inline")
            v = json.loads(k)
            out[k] = [st, int(self.b.value_store.has(h)),
                      int(v[0] == "fc" and os.path.exists(self.fc_path(self.value(v))))]
        return out


class Reporter:
    def __init__(self, ctx: Ctx):
        self.ctx = ctx
        self.count: dict[str, int] = {}

    def report(self, what: str, replay, key=None, cap=3):
        k = key or "(unkeyed)"
        self.count[k] = self.count.get(k, 0) + 1
        if self.count[k] <= (1 if key else cap):
            self.ctx.violation(what, replay, key=key)


def judge(obs: dict, step: dict) -> tuple[str, bool]:
    """Same decision as Judge in ValueStore_Trace.tla, on a Gen step. -> (kind, explained)."""
    g = {vkey(v): r for v, r in step["g"]}
    gf = {vkey(v): r for v, r in step["gf"]}
    for v, r in obs["gets"]:
        if r != ["absent"] and r != v:
            return "wrong", False
    if obs["res"][0] != step["res"][0]:
        return "res", False
    if obs["note"]:
        return "key", False
    unread = [v for v, r in obs["gets"] if r == ["absent"] and gf[vkey(v)] != ["absent"]]
    if unread:
        return "unreadable", all(g[vkey(v)] == ["absent"] for v in unread)
    return "", False


def replay_behaviour(ctx: Ctx, rep: Reporter, w: World, beh: dict, uniq: str, source: str, stats: dict) -> None:
    w.begin(uniq, beh["min0"])
    offloaded = absent_after_record = False
    status = "ok"
    for i, step in enumerate(beh["steps"]):
        try:
            obs = w.apply(step["op"])
        except MachineryError:
            raise
        except Exception as e:
            rep.report(f"{step['op']['n']} raised {type(e).__name__}: {e} at step {i + 1}",
                       {"source": source, "behaviour": beh, "at": i})
            status = "viol"
            break
        kind, explained = judge(obs, step)
        loc = w.locations()
        mloc = {vkey(x[0]): x[1:] for x in step["loc"]}
        if any(mloc[k] != v for k, v in loc.items()):
            stats["loc-drift"] = stats.get("loc-drift", 0) + 1
        offloaded |= any(v[1] for v in loc.values())
        absent_after_record |= any(r == ["absent"] for _, r in obs["gets"])
        if kind == "unreadable" and explained and step["fired"]:
            status = "dev"
            rep.report(f"a value recorded at step {i + 1} reads as absent: {WHAT}",
                       {"source": source, "behaviour": beh, "at": i, "obs": obs}, key=KEY)
            break
        if kind:
            status = "viol"
            rep.report({"wrong": "get_value returned a value that is not the value of that key",
                        "key": f"record_value returned another key for the same value ({obs['note']})",
                        "res": f"record_value outcome {obs['res']} differs from the model's {step['res'][:1]}",
                        "unreadable": "a recorded value whose bytes are present reads as absent"}[kind]
                       + f" after step {i + 1} ({step['op']}): observed {obs['gets']}",
                       {"source": source, "behaviour": beh, "at": i, "obs": obs})
            break
        gmap = {vkey(v): x for v, x in step["g"]}
        if any(r != ["absent"] and gmap[vkey(v)] == ["absent"] for v, r in obs["gets"]):
            stats["drift"] = stats.get("drift", 0) + 1
    stats[status] = stats.get(status, 0) + 1
    if offloaded and absent_after_record:
        ctx.distinct([beh["min0"]] + [s["op"] for s in beh["steps"]])


# --------------------------------------------------------------------------------------------------
def gen_random_trace(rng, w: World, uniq: str, n_ops: int) -> dict:
    min0 = rng.choice([0, 3, 100])
    w.begin(uniq, min0)
    vals = [[k, s, i] for k in ("plain", "fc") for s in ("small", "mid", "atmax", "over") for i in (1, 2)]
    pool = rng.sample(vals, rng.randint(2, 5))
    cur = min0
    in_store: set = set()
    has_file: set = set()
    steps = []
    for _ in range(n_ops):
        choices = ["record"] * 5 + ["setmin"] * 2 + ["putonly"]
        if in_store:
            choices += ["delstore"] * 3
        if has_file:
            choices += ["delfile"]
        n = rng.choice(choices)
        op = {"n": n, "v": [], "mn": 0}
        if n in ("record", "putonly"):
            v = rng.choice(pool)
            dlen = 2 if v[0] == "fc" else {"small": 1, "mid": 5, "atmax": 9, "over": 10}[v[1]]
            if n == "putonly" and (dlen > 9 or dlen < cur or vkey(v) in in_store):
                continue
            op["v"] = v
        elif n == "delstore":
            op["v"] = json.loads(rng.choice(sorted(in_store)))
        elif n == "delfile":
            op["v"] = json.loads(rng.choice(sorted(has_file)))
        else:
            op["mn"] = rng.choice([m for m in (0, 3, 100) if m != cur])
            cur = op["mn"]
        obs = w.apply(op)
        steps.append({"op": op, "res": obs["res"], "gets": obs["gets"], "note": obs["note"]})
        # what can be deleted next is read off the real store / cache directory, not assumed
        in_store = {k for k, h in w.keys.items() if w.b.value_store.has(h)}
        has_file = {k for k in w.keys if k.startswith('["fc"') and os.path.exists(w.fc_path(w.value(json.loads(k))))}
    return {"min0": min0, "steps": steps}


def cfg(spec: str, kinds: str, sizes: str, ids: str, ops: int, dev: str, extra: str) -> str:
    return (f"SPECIFICATION {spec}\nCONSTANTS\n Kinds = {kinds}\n Sizes = {sizes}\n Ids = {ids}\n"
            f" MinChoices = {{0, 3, 100}}\n Max = 9\n MaxOps = {ops}\n Dev = {dev}\n{extra}CHECK_DEADLOCK FALSE\n")


INV = ("VIEW View\nINVARIANT TypeOK\nINVARIANT GetSound\nINVARIANT SameKeyAnywhere\nINVARIANT ReadsBackRepaired\n"
       "INVARIANT ReadsBackUnlessFired\nINVARIANT MissingReadsAbsent\nINVARIANT Transparent\n"
       "INVARIANT SameUnlessFired\nPROPERTY OversizeRejected\nPROPERTY AcceptedUpToMax\n")
TINV = ("INVARIANT TypeOK\nINVARIANT GetSound\nINVARIANT SameKeyAnywhere\nINVARIANT MissingReadsAbsent\n"
        "INVARIANT Transparent\nINVARIANT SameUnlessFired\nPROPERTY TOversizeRejected\n")
BOTH, ALLSZ = '{"plain", "fc"}', '{"small", "mid", "atmax", "over"}'
DEVS = '{"%s"}' % DEV


def validate_traces(ctx: Ctx, traces: list, what: str):
    f = ctx.tmp(f"traces_{what}.json")
    f.write_text(json.dumps([{"min0": t["min0"],
                              "steps": [{k: v for k, v in s.items() if k != "note"} for s in t["steps"]]}
                             for t in traces]))
    res = run_tlc("seq/ValueStore_Trace.tla", cfg("TSpec", BOTH, ALLSZ, "{1, 2}", 0, DEVS, TINV), ctx.scratch,
                  workers=1, env={"TRACE_FILE": str(f)}, timeout=900)
    ctx.require(res.error is None and not res.violated,
                f"TLC failed on trace validation ({what}): {res.error} {res.violated}\n{res.out[-2500:]}")
    ctx.add_tlc(res)
    verdicts = {v[0]: tuple(v[1:]) for v in res.recs("VERDICT")}
    ctx.require(len(verdicts) == len(traces), f"verdicts {len(verdicts)} != traces {len(traces)} ({what})")
    return verdicts


def judge_trace(rep: Reporter, tr: dict, verdict, source: str, stats: dict) -> None:
    bad, kind, explained, drift = verdict
    keynote = next((i for i, s in enumerate(tr["steps"]) if s.get("note")), None)
    if drift:
        stats["drift"] = stats.get("drift", 0) + 1
    if bad == 0 and keynote is None:
        stats["ok"] = stats.get("ok", 0) + 1
        return
    if bad and kind == "unreadable" and explained:
        stats["dev"] = stats.get("dev", 0) + 1
        rep.report(f"recorded execution: a value recorded at step {bad} reads as absent: {WHAT}",
                   {"source": source, "trace": tr, "at": bad - 1}, key=KEY)
        return
    stats["viol"] = stats.get("viol", 0) + 1
    at = bad - 1 if bad else keynote
    step = tr["steps"][at]
    rep.report(f"recorded execution rejected by ValueStore_Trace at step {at + 1} ({kind or 'key'}): "
               f"op={step['op']} res={step['res']} gets={step['gets']} {step.get('note') or ''}",
               {"source": source, "trace": tr, "at": at})


def run(ctx: Ctx) -> None:
    ctx.assume("the value store is configured whenever the database is used ('missing' = object gone)",
               "store objects and cache files disappear whole (no truncation / corruption)",
               "size classes are realised away from the offload threshold, and exactly at / one above the maximum",
               "hashes of distinct byte strings differ")
    rep = Reporter(ctx)

    # ---- 1. model checking --------------------------------------------------------------------
    for what, c in [("all kinds and sizes", cfg("Spec", BOTH, ALLSZ, "{1}", ctx.pick(4, 5), DEVS, INV)),
                    ("two ids, boundary sizes", cfg("Spec", BOTH, '{"small", "atmax", "over"}', "{1, 2}",
                                                     ctx.pick(4, 5), DEVS, INV)),
                    ("plain values, deeper", cfg("Spec", '{"plain"}', '{"small", "mid"}', "{1}",
                                                  ctx.pick(7, 9), DEVS, INV))]:
        res = expect_clean(run_tlc("seq/ValueStore.tla", c, ctx.scratch, workers=ctx.pick(4, "auto"),
                                   timeout=1500), f"ValueStore.tla invariants ({what})")
        ctx.add_tlc(res)
    res = expect_violation(run_tlc("seq/ValueStore.tla",
                                   cfg("Spec", '{"plain"}', '{"small", "mid"}', "{1}", 5, DEVS,
                                       "VIEW View\nINVARIANT ReadsBackStrict\n"), ctx.scratch, workers=4),
                           "ReadsBackStrict", "control: a recorded value reads back fails only through " + DEV)
    ctx.add_tlc(res)
    ctx.note("deviations", {KEY: WHAT})

    # ---- 2. spec -> code: exhaustive tree ----------------------------------------------------------
    w = World(ctx)
    stats: dict = {}
    g = run_tlc("seq/ValueStore_Gen.tla",
                cfg("GSpec", BOTH, ctx.pick('{"small", "mid", "over"}', ALLSZ), "{1}", 3, DEVS, ""),
                ctx.scratch, workers=4, timeout=900)
    ctx.require(g.ok, f"ValueStore_Gen exhaustive failed: {g.error} {g.violated}")
    ctx.add_tlc(g)
    behs = g.recs("BEH")
    ctx.require(len(behs) > 1000, f"too few behaviours from TLC: {len(behs)}")
    if ctx.quick:
        ctx.rng.shuffle(behs)
        behs = behs[:1500]
    for n, b in enumerate(behs):
        replay_behaviour(ctx, rep, w, b, f"x{n}", "tlc-exhaustive-3", stats)
        ctx.count_eval()
        ctx.count_impl_trace()
    ctx.sample({"source": "tlc-exhaustive", "min0": behs[0]["min0"], "ops": [s["op"] for s in behs[0]["steps"]]})

    # ---- 3. spec -> code: longer simulated behaviours ------------------------------------------------
    nsim, depth = ctx.pick(300, 3000), ctx.pick(6, 9)
    sres = run_tlc("seq/ValueStore_Gen.tla", cfg("GSpec", BOTH, ALLSZ, "{1, 2}", depth, DEVS, ""), ctx.scratch,
                   workers=1, simulate=f"num={nsim}", depth=depth + 2, seed=ctx.seed + 1, timeout=1500)
    ctx.require(sres.error is None and not sres.violated, f"simulate failed: {sres.error} {sres.violated}")
    ctx.add_tlc(sres)
    sbehs = sres.recs("BEH")
    ctx.require(len(sbehs) > nsim // 2, f"too few simulated behaviours: {len(sbehs)}")
    for n, b in enumerate(sbehs):
        replay_behaviour(ctx, rep, w, b, f"s{n}", f"tlc-simulate-{depth}", stats)
        ctx.count_eval()
        ctx.count_impl_trace()
    ctx.sample({"source": "tlc-simulate", "min0": sbehs[0]["min0"], "ops": [s["op"] for s in sbehs[0]["steps"]]})
    ctx.note("backend_replay_stats", stats)
    ctx.note("asbuilt_drift", stats.get("drift", 0) + stats.get("loc-drift", 0))

    # ---- 4. code -> spec: random executions validated by TLC -------------------------------------
    ntr = ctx.pick(200, 2000)
    traces = [gen_random_trace(ctx.rng, w, f"r{n}", ctx.rng.randint(6, 18)) for n in range(ntr)]
    # the minimal history of the deviation (TLC's counterexample of the control run), judged by TLC
    small = ["plain", "small", 1]
    w.begin("wit", 0)
    wit = {"min0": 0, "steps": []}
    for op in ({"n": "record", "v": small, "mn": 0}, {"n": "delstore", "v": small, "mn": 0},
               {"n": "setmin", "v": [], "mn": 3}, {"n": "record", "v": small, "mn": 0}):
        obs = w.apply(op)
        wit["steps"].append({"op": op, "res": obs["res"], "gets": obs["gets"], "note": obs["note"]})
    traces.append(wit)
    # negative control: one get of one trace answers with another value's id
    def first_hit(t):
        return next((i for i, st in enumerate(t["steps"]) if any(r != ["absent"] for _, r in st["gets"])), 99)

    src = next(t for t in traces if first_hit(t) <= 2)
    bad = copy.deepcopy(src)
    at = first_hit(bad)
    gi = next(i for i, (_, r) in enumerate(bad["steps"][at]["gets"]) if r != ["absent"])
    v = bad["steps"][at]["gets"][gi][0]
    bad["steps"][at]["gets"][gi][1] = [v[0], v[1], 3 - v[2]]
    traces.append(bad)
    verdicts = validate_traces(ctx, traces, "random")
    nc = verdicts[len(traces)]
    ctx.negative_control(nc[0] == at + 1 and nc[1] == "wrong",
                         "a recorded trace in which one get answers with another value must be rejected at that step")
    tstats: dict = {}
    for tid in range(1, len(traces)):
        tr = traces[tid - 1]
        ctx.count_eval()
        ctx.count_impl_trace()
        if any(r == ["absent"] for s in tr["steps"] for _, r in s["gets"]):
            ctx.distinct([tr["min0"]] + [s["op"] for s in tr["steps"]])
        judge_trace(rep, tr, verdicts[tid], "random-trace", tstats)
    ctx.note("trace_stats", tstats)
    ctx.sample({"source": "recorded-trace", "min0": traces[0]["min0"], "steps": traces[0]["steps"][:4]})
    ctx.note("violation_counts", rep.count)


def replay(ctx: Ctx, rec: dict) -> None:
    r = rec["replay"]
    rep = Reporter(ctx)
    w = World(ctx)
    if "behaviour" in r:
        replay_behaviour(ctx, rep, w, r["behaviour"], "replay", "replay", {})
    elif "trace" in r:
        w.begin("replay", r["trace"]["min0"])
        tr = {"min0": r["trace"]["min0"], "steps": []}
        for s in r["trace"]["steps"]:
            obs = w.apply(s["op"])
            tr["steps"].append({"op": s["op"], "res": obs["res"], "gets": obs["gets"], "note": obs["note"]})
        verdicts = validate_traces(ctx, [tr], "replay")
        judge_trace(rep, tr, verdicts[1], "replay", {})
    else:
        run(ctx)
