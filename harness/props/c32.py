"""
C32  The remote job protocol reproduces local execution.

Spec: spec/seq/RemoteJob.tla.
  Part 1  the scratch-file protocol as a state machine over an abstract scratch directory: Submit
          (write_array_job_scratch_files / the single job's input file), Work(i) (`redun oneshot`
          for array index i - 1 or for job i: spec files -> own paths, stale error removed, valid
          stale output reused unless --no-cache, invalid one removed, result or pickled exception
          written, Exception(repr(e)) when e does not pickle), Parse(i) (parse_job_result, then
          parse_job_error), containers in every order with retries.  Properties: what the
          executor reads for job i is the outcome of the local call (OutcomeOK); a container only
          writes its own job's output / error file (Isolation); exactly one of the two exists after
          a container finished.
  Part 2  job names as sequences of dash-separated segments: HashOf(Name(prefix, h)) = h and
          IsArrayName(Name(prefix, h, arr)) = arr for every prefix (dashes, empty segments, a segment
          "array").
  Part 3  gather_inflight_jobs / _submit as a table hash -> remote (child) job: a job is reunited
          only with a remote job created for its own evaluation hash (ReuniteSound).

Binding, both directions:
  spec -> code  every protocol case of the bounded universe runs on the real functions in a temp
                scratch directory (generated task module, Job objects with real 40-digit hashes,
                write_array_job_scratch_files / get_oneshot_command, RedunClient.execute of the argv the
                executors build, parse_job_result / parse_job_error) and the outcome per job is compared
                with the model and with the local call; simulated behaviours (random order, retries)
                are replayed event by event comparing the scratch directory after every event; every
                name case goes through get_batch_job_name / get_hash_from_job_name /
                is_array_job_name (AWS Batch and k8s); every remote world goes through a real
                AWSBatchExecutor over a fake AWS Batch API (list_jobs / describe_jobs) and the
                reunite table is compared, a sample through executor.submit().
  code -> spec  seeded larger groups (up to 12 elements, rich argument values, kwargs, different
                index environment variables, retries) are executed, recorded event by event and
                validated by TLC (RemoteJob_Trace) with every invariant on; a corrupted record is
                rejected in every run.
"""

from __future__ import annotations

import copy
import hashlib
import importlib
import json
import logging
import os
import pickle
import sys
import uuid
from pathlib import Path
from unittest.mock import patch

from ..core import Ctx, MachineryError
from ..tlc import expect_clean, expect_violation, run_tlc

META = {
    "level": "model_checking",
    "level_text": "TLC checks on every group of up to 3 jobs (array or single), every return / raise / "
                  "unpicklable-raise pattern, one stale file, --no-cache, every interleaving of containers "
                  "and parses with one retry, that the parsed outcome of job i is the local outcome, that a "
                  "container writes only its own job's files, and on every prefix of up to 3 dash-separated "
                  "segments / every list of up to 2 in-flight remote jobs that the hash is recovered from the "
                  "name and that a job is reunited only with a remote job made for its evaluation hash; every "
                  "enumerated case runs on the real functions (oneshot in process, real scratch files, real "
                  "executor over a fake AWS API) and larger recorded executions are validated by TLC.",
    "level_note": "The container is the in-process call of the function the `redun oneshot` command runs, "
                  "with the argv the executors build (no docker, no cloud); the remote file system is a local "
                  "scratch directory (s3 object semantics are not modelled); the AWS Batch API is a fake at "
                  "the boto client boundary (list_jobs paginator, describe_jobs); evaluation hashes are "
                  "40 hex digits and array ids 32 hex digits (no dashes), and a remote job that is not redun's "
                  "does not end in a segment that equals an evaluation hash; exceptions are compared by type "
                  "and args (what pickle preserves), an exception that cannot be pickled is expected as "
                  "Exception(repr(e)) (documented fallback of oneshot).",
    "technique": "explicit TLA+ state machine + algebraic laws checked by TLC; spec->code replay of every "
                 "enumerated case and of simulated behaviours on the real functions; code->spec batched trace "
                 "validation by TLC",
    "rule": "a case is one group of jobs with its outcome pattern, stale file and flags (with its schedule "
            "when replayed or recorded), one (prefix, hash, array) name, or one list of remote jobs; "
            "non-trivial = some element raises, or a stale file exists, or the group is an array; a name "
            "whose prefix has a dash, an empty or an 'array' segment; a remote world with at least one "
            "table entry",
}

KEY_UNREADABLE = "error-pickles-but-does-not-unpickle"
JVM_SHORT = {"JAVA_TOOL_OPTIONS": "-XX:ParallelGCThreads=2 -XX:TieredStopAtLevel=1"}
JVM_LONG = {"JAVA_TOOL_OPTIONS": "-XX:ParallelGCThreads=4"}

MODULE_SRC = '''"""Generated by the C32 check: what a task does is a function of its arguments."""
from redun import task


class ElemError(Exception):
    """Pickles by its args."""


class OddError(Exception):
    """Cannot be pickled: carries a lambda."""

    def __init__(self, payload):
        super().__init__(payload)
        self.fn = lambda: payload


class TwoArgError(Exception):
    """Pickles, but the pickle does not load: __init__ needs two arguments, args holds one."""

    def __init__(self, code, detail):
        super().__init__(f"{code}: {detail}")
        self.code, self.detail = code, detail


def _do(kind, payload, extra):
    if kind == "raise":
        raise ElemError(payload, extra)
    if kind == "unp":
        raise OddError(payload)
    if kind == "rt":
        raise TwoArgError(payload, extra)
    return {"payload": payload, "extra": extra, "twice": [payload, payload]}


@task(namespace="NS")
def elem_a(kind, payload):
    return _do(kind, payload, None)


@task(namespace="NS")
def elem_b(kind, payload, scale=2, *, tag="t"):
    return _do(kind, payload, (scale, tag))


@task(namespace="NS")
def elem_c(*items, kind="ok"):
    return _do(kind, list(items), len(items))
'''



def _viol(ctx: Ctx, what: str, replay, key=None) -> None:
    """ctx.violation, capped: a broken tree fails thousands of cases, thirty replay files are enough."""
    if key is not None:
        seen = ctx.__dict__.setdefault("_keys_reported", set())
        if key in seen:
            return                      # one report per named deviation
        seen.add(key)
        ctx.violation(what, replay, key=key)
    elif sum(1 for v in ctx.violations if v["key"] is None) < 30:
        ctx.violation(what, replay, key=key)


def sha(text: str) -> str:
    return hashlib.sha1(text.encode()).hexdigest()


class Lab:
    """Real-code side of the protocol: generated task module, scratch directories, oneshot."""

    def __init__(self, ctx: Ctx):
        self.ctx = ctx
        try:
            from redun.cli import RedunClient
            from redun.executors import scratch as S
            from redun.executors.command import get_oneshot_command
            from redun.file import File
            from redun.job_array import AWS_ARRAY_VAR, GCP_ARRAY_VAR, K8S_ARRAY_VAR
            from redun.scheduler import Job, Traceback
            from redun.task import CacheScope
            from redun.utils import clear_import_paths, pickle_dump
            from redun.value import get_type_registry
        except ImportError as e:
            raise MachineryError(f"a seam of C32 is gone: {e}")
        for name in ("write_array_job_scratch_files", "parse_job_result", "parse_job_error",
                     "get_job_scratch_file", "get_array_scratch_file", "ExceptionNotFoundError", "ScratchError"):
            if not hasattr(S, name):
                raise MachineryError(f"redun.executors.scratch.{name} is gone")
        self.S, self.RedunClient, self.get_oneshot_command = S, RedunClient, get_oneshot_command
        self.Job, self.Traceback, self.CacheScope, self.pickle_dump = Job, Traceback, CacheScope, pickle_dump
        self.File, self.registry = File, get_type_registry()
        self.clear_import_paths = clear_import_paths
        self.index_vars = [AWS_ARRAY_VAR, K8S_ARRAY_VAR, GCP_ARRAY_VAR]
        logging.disable(logging.CRITICAL)      # oneshot logs every call; nothing here reads logs
        self.root = ctx.tmp("proto/x").parent
        moddir = ctx.tmp("mods/x").parent
        uniq = f"verif_c32_generated_{ctx.seed}"       # (one check run is one process: the name is unique in it)
        if uniq in sys.modules:
            self.mod = sys.modules[uniq]
        else:
            (moddir / f"{uniq}.py").write_text(MODULE_SRC.replace("NS", uniq))
            sys.path.insert(0, str(moddir))
            self.mod = importlib.import_module(uniq)
        self.tasks = [self.mod.elem_a, self.mod.elem_b, self.mod.elem_c]
        self.client = RedunClient()
        self.parser = None
        self.n = 0

    def oneshot(self, argv: list):
        """What `redun <argv>` does: RedunClient.execute without rebuilding the argument parser for every
        call (parse with the client's own parser, then the function the oneshot command is bound to)."""
        if self.parser is None:
            self.parser = self.client.get_command_parser()
        args, extra = self.parser.parse_known_args(argv[1:])
        if getattr(args, "func", None) is None or getattr(args.func, "__name__", "") != "oneshot_command":
            raise MachineryError("the oneshot sub-command is no longer bound to RedunClient.oneshot_command")
        return args.func(args, extra, argv)

    # a group of jobs --------------------------------------------------------------------------
    def new_group(self, case: dict, payloads: list, variant: int, index_var=None) -> "Group":
        self.n += 1
        return Group(self, case, payloads, variant, self.root / f"g{self.n}", index_var or self.index_vars[0])


class Group:
    def __init__(self, lab: Lab, case: dict, payloads: list, variant: int, d: Path, index_var: str):
        self.lab, self.case, self.dir, self.index_var = lab, case, d, index_var
        d.mkdir(parents=True, exist_ok=True)
        self.scratch = str(d / "scratch")
        self.task = lab.tasks[variant % 3]
        n = case["n"]
        self.calls = []
        for i in range(n):
            kind, p = case["beh"][i], payloads[i]
            if variant % 3 == 0:
                self.calls.append(((kind, p), {}))
            elif variant % 3 == 1:
                self.calls.append(((kind,), {"payload": p, "tag": f"tag{i}"}) if i % 2 else ((kind, p, i + 3), {}))
            else:
                self.calls.append(((p, i), {"kind": kind}))
        self.array_id = uuid.UUID(int=int(sha(f"{d}")[:32], 16)).hex
        self.jobs = []
        for i, (a, kw) in enumerate(self.calls):
            job = lab.Job(self.task, self.task(*a, **kw))
            job.id = f"job{i + 1}"
            job.eval_hash = sha(f"{d}/{i}")
            job.args = (a, kw)
            self.jobs.append(job)
        # the local call: the oracle of the property
        self.local = []
        for a, kw in self.calls:
            try:
                self.local.append(("ok", self.task.func(*a, **kw)))
            except Exception as e:  # noqa
                self.local.append(("err", e))
        self.argv: dict = {}
        self.last_raised = [None] * n
        self._stale()

    def path(self, i: int, kind: str) -> str:
        return self.lab.S.get_job_scratch_file(self.scratch, self.jobs[i], kind)

    def _stale(self):
        lab = self.lab
        for i, s in enumerate(self.case["stale"]):
            if s == "none":
                continue
            os.makedirs(os.path.dirname(self.path(i, "output")), exist_ok=True)
            if s == "err":
                old = RuntimeError("an earlier attempt failed")
                with open(self.path(i, "error"), "wb") as f:
                    lab.pickle_dump((old, lab.Traceback.from_error(old)), f)
            elif s == "out":
                with open(self.path(i, "output"), "wb") as f:
                    lab.pickle_dump(self.local[i][1], f)
            elif s == "junk":
                # an output that is_valid_nested rejects: a File whose recorded hash is out of date
                p = self.dir / f"gone{i}"
                p.write_text("v1")
                stale_file = lab.File(str(p))
                _ = stale_file.hash
                with open(self.path(i, "output"), "wb") as f:
                    lab.pickle_dump({"file": stale_file}, f)
                p.write_text("v2 changed")

    def obs(self) -> list:
        return [[1 if os.path.exists(self.path(i, "output")) else 0, 1 if os.path.exists(self.path(i, "error")) else 0]
                for i in range(self.case["n"])]

    def submit(self):
        lab, opts = self.lab, {}
        if self.case["nocache"]:
            opts = {"cache_scope": lab.CacheScope.NONE}
        if self.case["array"]:
            lab.S.write_array_job_scratch_files(self.jobs, self.scratch, self.array_id)
            self.argv[0] = lab.get_oneshot_command(self.scratch, self.jobs[0], self.task, job_options=opts,
                                                   array_uuid=self.array_id)
        else:
            for i, job in enumerate(self.jobs):
                a, kw = self.calls[i]
                self.argv[i] = lab.get_oneshot_command(self.scratch, job, self.task, a, kw, job_options=opts)

    def work(self, i: int):
        """The container of job i (1-based): the oneshot entry point with the executor's argv."""
        lab = self.lab
        saved = {v: os.environ.pop(v, None) for v in lab.index_vars}
        saved_path = list(sys.path)
        try:
            if self.case["array"]:
                os.environ[self.index_var] = str(i - 1)
                argv = self.argv[0]
            else:
                argv = self.argv[i - 1]
            try:
                lab.oneshot(list(argv))
                self.last_raised[i - 1] = False
            except Exception:  # noqa  (the container exits non-zero)
                self.last_raised[i - 1] = True
        finally:
            # a real container is a fresh process: undo what oneshot leaves behind in this one
            sys.path[:] = saved_path
            lab.clear_import_paths()
            for v, val in saved.items():
                os.environ.pop(v, None)
                if val is not None:
                    os.environ[v] = val

    def parse(self, i: int) -> list:
        """What the executor does when the container of job i (1-based) has ended."""
        lab, job = self.lab, self.jobs[i - 1]
        if self.last_raised[i - 1] is False:
            result, exists = lab.S.parse_job_result(self.scratch, job)
            if exists:
                return ["ok", self._src_value(result), 0]
        error, _tb = lab.S.parse_job_error(self.scratch, job)
        if type(error) is lab.S.ScratchError:
            return ["scratcherr", 0, 0]
        if isinstance(error, lab.S.ExceptionNotFoundError):
            if self.last_raised[i - 1]:
                result, exists = lab.S.parse_job_result(self.scratch, job)
                if exists:
                    return ["ok", self._src_value(result), 0]
            return ["missing", 0, 0]
        return ["err"] + self._src_error(error)

    def _src_value(self, v) -> int:
        for j, (st, lv) in enumerate(self.local):
            if st == "ok" and type(lv) is type(v) and lv == v:
                return j + 1
        return 0

    def _src_error(self, e) -> list:
        for j, (st, le) in enumerate(self.local):
            if st != "err":
                continue
            if type(e) is type(le) and e.args == le.args:
                return [j + 1, 0]
            if type(e) is Exception and e.args == (repr(le),):
                return [j + 1, 1]
        return [0, 0]

    def describe(self, i: int) -> str:
        st, v = self.local[i - 1]
        return f"{self.task.fullname}{self.calls[i - 1]} -> {st} {v!r}"


def make_payloads(rng, n: int, rich: bool) -> list:
    out = []
    for i in range(n):
        if not rich:
            out.append(rng.choice([i * 7 + 1, f"s{i}", (i, "x")]))
            continue
        kind = rng.randrange(6)
        base = [i, rng.randrange(10 ** 6)]
        if kind == 0:
            out.append({"i": i, "name": "naïve ✓", "nested": {"k": [1, 2.5, None, True]}, "u": base})
        elif kind == 1:
            out.append([base, ("t", i), b"\x00\xff bytes", -1.5e300])
        elif kind == 2:
            out.append(("tuple", i, frozenset([1, 2]), base[1]))
        elif kind == 3:
            out.append("line1\nline2 'quoted' \"double\" $HOME " + str(base))
        elif kind == 4:
            out.append({"deep": [[[[i, base]]]], "empty": [{}, [], ""]})
        else:
            out.append(base[1] * 10 ** 20 + i)
    return out


# ------------------------------------------------------------------------- protocol: run / record
def run_events(ctx: Ctx, g: Group, events: list, model: list | None, source: str) -> list:
    """Performs the events on the real code.  With `model` (the spec's expectation per event) the
    observation after each event and each parsed outcome are compared.  Returns the recorded events."""
    rec, prev = [], g.obs()
    rep = {"kind": "proto", "case": g.case, "events": events, "source": source}
    for k, a in enumerate(events):
        name, i = a
        out = []
        try:
            if name == "submit":
                g.submit()
            elif name == "work":
                g.work(i)
            elif name == "parse":
                out = g.parse(i)
        except Exception as e:  # noqa
            _viol(ctx, f"{name}({i}) raised {type(e).__name__}: {e} for case {g.case}", rep)
            return rec
        obs = g.obs()
        rec.append({"a": [name, i], "obs": obs, "out": out})
        # the property's own predicates, judged here on the real observations
        if name == "work":
            touched = [j + 1 for j in range(g.case["n"]) if obs[j] != prev[j] and j + 1 != i]
            if touched:
                _viol(ctx, f"container of element {i} changed the output / error files of element(s) {touched} "
                              f"(case {g.case})", rep)
        if name == "parse":
            beh = g.case["beh"][i - 1]
            want = ["ok" if g.local[i - 1][0] == "ok" else "err", i, 1 if beh in ("unp", "rt") else 0]
            if out != want and beh == "rt" and out == ["scratcherr", 0, 0]:
                # the named deviation DevUnreadableError of RemoteJob.tla
                _viol(ctx, f"the task raised {g.local[i - 1][1]!r}; its pickle does not load, oneshot wrote it "
                           "unchecked, and the executor reports ScratchError('Error could not be parsed from scratch "
                           "directory...') instead of the task's exception or its Exception(repr(e)) fallback",
                      rep, key=KEY_UNREADABLE)
            elif out != want:
                _viol(ctx, f"remote outcome of element {i} is {out} (status, element whose local outcome it "
                              f"equals, generic), the local call gives {want}: {g.describe(i)} (case {g.case})", rep)
        if model is not None:
            m = model[k]
            fixed_ok = name == "parse" and g.case["beh"][i - 1] == "rt" and out == ["err", i, 1]
            if m["obs"] != obs or (name == "parse" and list(m["out"]) != out and not fixed_ok):
                if not ctx.violations:
                    ctx.note("asbuilt_drift_example", {"case": g.case, "event": a, "model": m, "impl": rec[-1]})
                return rec + [None]
        prev = obs
    return rec


def canonical_events(n: int) -> list:
    return [["submit", 0]] + [["work", i] for i in range(1, n + 1)] + [["parse", i] for i in range(1, n + 1)]


def nontrivial_case(c: dict) -> bool:
    return bool(c["array"]) or any(b != "ok" for b in c["beh"]) or any(s != "none" for s in c["stale"])


def validate(ctx: Ctx, traces: list, what: str):
    f = ctx.tmp(f"remote_traces_{what}.json")
    f.write_text(json.dumps(traces))
    cfg = ('SPECIFICATION TSpec\nCONSTANTS\n Variant = "asbuilt"\n Fixed = FALSE\n MaxRuns = 99\n'
           'INVARIANT OutcomeUnlessDev\n'
           'INVARIANT OneOutcomeFile\nPROPERTY TIsolation\nCHECK_DEADLOCK FALSE\n')
    res = run_tlc("seq/RemoteJob_Trace.tla", cfg, ctx.scratch, workers=1, env=dict(JVM_SHORT, TRACE_FILE=str(f)),
                  timeout=900)
    if res.error:
        raise MachineryError(f"TLC failed on RemoteJob_Trace ({what}): {res.error}\n{res.out[-2500:]}")
    ctx.add_tlc(res)
    return {t: (bool(acc), pos) for t, acc, pos in res.recs("VERDICT")}, res


# ------------------------------------------------------------------------- names
TOKENS = {"h1": sha("h1"), "h2": sha("h2"), "h3": sha("h3"), "u7": uuid.UUID(int=int(sha("u7")[:32], 16)).hex,
          "u8": uuid.UUID(int=int(sha("u8")[:32], 16)).hex, "headnode": "headnode", "array": "array", "": ""}


def render_seg(seg: str, words: dict) -> str:
    return TOKENS[seg] if seg in TOKENS else words[seg]


def check_names(ctx: Ctx, cases: list, rng) -> None:
    from redun.executors import aws_batch as A

    impls = [("aws_batch", A.get_batch_job_name, A.get_hash_from_job_name, A.is_array_job_name)]
    try:
        from redun.executors import k8s as K

        impls.append(("k8s", K.get_k8s_job_name, K.get_hash_from_job_name, K.is_array_job_name))
    except Exception:  # noqa  (optional dependency missing)
        pass
    back = {v: k for k, v in TOKENS.items() if k}
    for c in cases:
        words = {"p": rng.choice(["redun", "batch", "my_job", "Pre.fix"]), "q": rng.choice(["job", "x9", "a_b", "7"])}
        prefix = "-".join(render_seg(s, words) for s in c["pre"])
        h = TOKENS[c["h"]]
        for name_, mk, hash_of, is_arr in impls:
            name = mk(prefix, h, array=bool(c["arr"]))
            want_segs = [render_seg(s, words) for s in c["pre"]] + [h] + (["array"] if c["arr"] else [])
            got = hash_of(name)
            got_tok = "none" if got is None else back.get(got, words and next((k for k, v in words.items() if v == got), got))
            ctx.count_eval()
            ctx.count_impl_trace()
            rep = {"kind": "name", "prefix": prefix, "hash": h, "array": c["arr"], "impl": name_}
            if name.split("-") != want_segs:
                _viol(ctx, f"{name_}: job name {name!r} is not prefix-hash[-array] for prefix {prefix!r}", rep)
            if got_tok != c["hash"]:
                ctx.require(c["h"] not in ("h1", "h2", "h3") or c["hash"] == c["h"], "NameLaw broken in the model")
                if c["h"] in ("h1", "h2", "h3"):
                    _viol(ctx, f"{name_}: hash recovered from {name!r} is {got!r}, the job was named for {h!r}", rep)
                else:
                    ctx.note("name_drift", {"name": name, "model": c["hash"], "impl": got})
            if bool(is_arr(name)) != bool(c["isarr"]):
                _viol(ctx, f"{name_}: is_array_job_name({name!r}) = {is_arr(name)}, array = {bool(c['arr'])}", rep)
        if len(c["pre"]) > 1 or c["pre"][0] in ("", "array"):
            ctx.distinct(("name", c["pre"], c["h"], c["arr"]))


# ------------------------------------------------------------------------- reunite
class FakeBatchApi:
    """The AWS Batch API at the boto client boundary: list_jobs (paginator) and describe_jobs."""

    def __init__(self, queue: str):
        self.queue, self.jobs, self.children = queue, [], {}

    class _Pager:
        def __init__(self, api):
            self.api = api

        def paginate(self, **kw):
            api = self.api
            if "arrayJobId" in kw:
                kids = [k for k in api.children.get(kw["arrayJobId"], []) if k["status"] == kw["jobStatus"]]
                return iter([{"jobSummaryList": kids[:1]}, {"jobSummaryList": kids[1:]}])
            if kw.get("jobQueue") != api.queue:
                return iter([])
            js = [j for j in api.jobs if j["status"] == kw["jobStatus"]]
            return iter([{"jobSummaryList": js}])

    def get_paginator(self, op):
        assert op == "list_jobs", op
        return FakeBatchApi._Pager(self)

    def describe_jobs(self, jobs):
        known = {j["jobId"]: j for j in self.jobs}
        for kids in self.children.values():
            known.update({k["jobId"]: k for k in kids})
        return {"jobs": [dict(known[i]) for i in jobs if i in known]}

    def get_caller_identity(self):
        return {"Arn": "arn:aws:iam::0:user/verif"}


class ReuniteLab:
    def __init__(self, ctx: Ctx, lab: Lab):
        from redun.config import Config
        from redun.executors.aws_batch import AWSBatchExecutor
        from redun.tests.utils import mock_scheduler

        self.ctx, self.lab, self.Config, self.Exec = ctx, lab, Config, AWSBatchExecutor
        self.sched = mock_scheduler()
        self.root = ctx.tmp("reunite/x").parent
        self.n = 0

    def world(self, case: dict, rng):
        """Real executor + fake API for one list of remote jobs.  Returns (executor, api, words)."""
        self.n += 1
        scratch = str(self.root / f"w{self.n}")
        words = {"p": rng.choice(["redun", "batch", "my_job"]), "q": rng.choice(["job", "x9", "a_b"])}
        names = ["-".join(render_seg(s, words) for s in r["name"]) for r in case["R"]]
        common = os.path.commonprefix(names) if names else "redun-job"
        cfg = self.Config({"batch": {"image": "img", "queue": "queue", "s3_scratch": scratch,
                                     "job_monitor_interval": 0.02, "job_stale_time": 0.01, "code_package": False,
                                     "job_name_prefix": common}})
        with patch("redun.executors.aws_utils.get_default_region", lambda: "us-west-2"):
            ex = self.Exec("batch", self.sched, cfg["batch"])
        api = FakeBatchApi("queue")
        statuses = ["SUBMITTED", "PENDING", "RUNNABLE", "STARTING", "RUNNING"]
        # (the executor lists the queue status by status: keep the model's order of the remote jobs)
        order = sorted(rng.randrange(5) for _ in case["R"])
        for r, name, st in zip(case["R"], names, order):
            api.jobs.append({"jobId": r["id"], "jobName": name, "status": statuses[st]})
            if r["kids"]:
                api.children[r["id"]] = [{"jobId": f"{r['id']}:{k - 1}", "status": rng.choice(statuses),
                                          "arrayProperties": {"index": k - 1}} for k in r["kids"]]
                # a finished child is not in flight
                api.children[r["id"]].append({"jobId": f"{r['id']}:9", "status": "SUCCEEDED",
                                              "arrayProperties": {"index": 9}})
            if r["hashfile"]:
                # the array's scratch files as redun wrote them when it created the array
                parent = TOKENS[r["name"][-2]]
                jobs = []
                for e in r["made"]:
                    job = self.lab.Job(self.lab.tasks[0], self.lab.tasks[0]("ok", e))
                    job.eval_hash, job.args = TOKENS[e], (("ok", e), {})
                    jobs.append(job)
                self.lab.S.write_array_job_scratch_files(jobs, scratch, parent)
        # somebody else's jobs on the queue: another prefix, and a finished job of ours
        if common:
            api.jobs.append({"jobId": "foreign", "jobName": "~" + common + "-" + TOKENS["h1"], "status": "RUNNING"})
        api.jobs.append({"jobId": "done", "jobName": (common or "x") + "-" + TOKENS["h3"], "status": "SUCCEEDED"})
        return ex, api, words

    def table(self, ex, api) -> dict:
        with patch("redun.executors.aws_utils.get_aws_client", lambda service, aws_region=None: api):
            ex.gather_inflight_jobs()
        return dict(ex.preexisting_batch_jobs)


def child_id(d) -> str:
    return "new" if d[0] == "new" else (d[0] if d[1] == 0 else f"{d[0]}:{d[1] - 1}")


def check_reunite(ctx: Ctx, cases: list, lab: Lab, rng, n_submit: int) -> None:
    rl = ReuniteLab(ctx, lab)
    submit_idx = set(rng.sample(range(len(cases)), min(n_submit, len(cases))))
    for ci, c in enumerate(cases):
        rep = {"kind": "reunite", "case": c}
        ex, api, _w = rl.world(c, rng)
        try:
            table = rl.table(ex, api)
        except Exception as e:  # noqa
            _viol(ctx, f"gather_inflight_jobs raised {type(e).__name__}: {e} for remote jobs {c['R']}", rep)
            continue
        ctx.count_eval()
        ctx.count_impl_trace()
        made_for = {}
        for r in c["R"]:
            if len(r["made"]) == 1 and not r["kids"]:
                made_for[r["id"]] = r["made"][0]
            for k in r["kids"]:
                if k <= len(r["made"]):
                    made_for[f"{r['id']}:{k - 1}"] = r["made"][k - 1]
        for e in ("h1", "h2", "h3"):
            got = table.get(TOKENS[e], "new")
            want = child_id(c["dec"][e])
            # the property: whatever the table pairs e with was created for e
            if got != "new" and made_for.get(got) != e:
                _viol(ctx, f"a job with evaluation hash {e} would be reunited with remote job {got}, which was "
                              f"created for {made_for.get(got)} (remote jobs {c['R']})", rep)
            elif got != want:
                ctx.note("reunite_drift", {"case": c, "hash": e, "model": want, "impl": got})
        if "foreign" in table.values() or "done" in table.values():
            _viol(ctx, "a job of another prefix / a finished job entered the reunite table", rep)
        if any(child_id(d) != "new" for d in c["dec"].values()):
            ctx.distinct(("reunite", c["R"]))
        if ci in submit_idx:
            _submit_through_executor(ctx, rl, c, rng, made_for)


def _submit_through_executor(ctx: Ctx, rl: ReuniteLab, c: dict, rng, made_for: dict) -> None:
    """executor.submit() for jobs with hashes h1..h3 on a fresh executor: who gets reunited with whom."""
    ex, api, _w = rl.world(c, rng)
    lab = rl.lab
    fresh = []
    ex.arrayer.add_job = fresh.append
    jobs = {}
    try:
        with patch("redun.executors.aws_utils.get_aws_client", lambda service, aws_region=None: api):
            for e in rng.sample(["h1", "h2", "h3"], 3):
                job = lab.Job(lab.tasks[0], lab.tasks[0]("ok", e))
                job.id, job.eval_hash, job.args = f"job-{e}", TOKENS[e], (("ok", e), {})
                jobs[e] = job
                ex.submit(job)
            pending = {k: v.id for k, v in ex.pending_batch_jobs.items()}
            ex.stop()
    except Exception as e:  # noqa
        ex.stop()
        _viol(ctx, f"executor.submit raised {type(e).__name__}: {e}", {"kind": "reunite", "case": c})
        return
    ctx.count_impl_trace()
    for remote, jid in pending.items():
        e = jid[len("job-"):]
        if made_for.get(remote) != e:
            _viol(ctx, f"executor.submit reunited the job with evaluation hash {e} with remote job {remote}, "
                          f"created for {made_for.get(remote)}", {"kind": "reunite", "case": c})
    for e, job in jobs.items():
        want = child_id(c["dec"][e])
        got = next((r for r, jid in pending.items() if jid == job.id), "new")
        if (got == "new") != (job in fresh):
            _viol(ctx, f"job {e} was both reunited and submitted afresh (or neither)", {"kind": "reunite", "case": c})
        if got != want:
            ctx.note("reunite_drift", {"case": c, "hash": e, "model": want, "impl": got})


# ------------------------------------------------------------------------- TLC configs
def gen_cfg(max_n: int, max_seg: int, kinds, max_runs: int, variant="asbuilt", emit="EmitCases", view=True, sim=False,
            invs=("GOutcomeUnlessDev", "GOneOutcomeFile", "GNameLaw", "GReunite"), props=("GIsolation",),
            fixed=False) -> str:
    cfg = (f'SPECIFICATION GSpec\nCONSTANTS\n MaxN = {max_n}\n MaxSeg = {max_seg}\n MaxRuns = {max_runs}\n'
           f' Kinds = {{{", ".join(chr(34) + k + chr(34) for k in kinds)}}}\n Variant = "{variant}"\n'
           f' SimPick = {"TRUE" if sim else "FALSE"}\n Fixed = {"TRUE" if fixed else "FALSE"}\n')
    cfg += "".join(f"INVARIANT {i}\n" for i in invs) + "".join(f"PROPERTY {p}\n" for p in props)
    if emit:
        cfg += f"INVARIANT {emit}\n"
    if view:
        cfg += "VIEW View\n"
    return cfg + "CHECK_DEADLOCK FALSE\n"


class Stages:
    """Wall seconds per stage, kept in the evidence (and printed when VERIF_TIMING is set)."""

    def __init__(self, ctx: Ctx):
        self.ctx, self.t, self.d = ctx, ctx.elapsed(), {}

    def done(self, name: str) -> None:
        now = self.ctx.elapsed()
        self.d[name] = round(now - self.t, 1)
        self.t = now
        self.ctx.note("stage_seconds", self.d)
        if os.environ.get("VERIF_TIMING"):
            print(f"  [stage {name}: {self.d[name]}s]", flush=True)


def run(ctx: Ctx) -> None:
    st = Stages(ctx)
    ctx.assume("the container is the in-process oneshot entry point with the executors' argv",
               "scratch is a local directory; the AWS Batch API is a fake at the boto client boundary",
               "evaluation hashes / array ids contain no dash; foreign job names do not end in an evaluation hash",
               "a task's outcome is a function of its arguments (what the evaluation hash stands for)")
    rng = ctx.rng
    lab = Lab(ctx)

    # ---- 1. model checking + enumeration: one exhaustive run (histories hidden by the VIEW) -------
    g = expect_clean(run_tlc("seq/RemoteJob_Gen.tla",
                             gen_cfg(ctx.pick(3, 4), ctx.pick(2, 3), ("proto", "name", "reunite"), 1),
                             ctx.scratch, workers=ctx.pick(8, "auto"), env=JVM_LONG, timeout=2400),
                     "RemoteJob_Gen (protocol, names, reunite)")
    ctx.add_tlc(g)
    ctx.note("model_config", f"groups of <= {ctx.pick(3, 4)} jobs, 1 container per job exhaustively (2 for groups of <= 3 "
             "in the thorough tier and in the simulated behaviours), prefixes of <= %d segments over "
             "{'', p, q, array}, <= 2 in-flight remote jobs" % ctx.pick(2, 3))
    # (TLC's workers print in any order: sort, so that the seeded choices below are reproducible)
    canon = lambda recs: sorted(recs, key=lambda r: json.dumps(r, sort_keys=True))  # noqa
    pcases, ncases, rcases = canon(g.recs("CASE")), canon(g.recs("NAME")), canon(g.recs("REUNITE"))
    ctx.require(len(pcases) > 500 and len(ncases) > 100 and len(rcases) > 1000,
                f"too few cases from TLC: {len(pcases)} / {len(ncases)} / {len(rcases)}")

    st.done("tlc_enumeration")
    # ---- 2. spec -> code: every protocol case, canonical schedule ------------------------------
    seen_cases = set()
    uniq = []
    for c in pcases:
        key = json.dumps(c["c"], sort_keys=True)
        if key not in seen_cases:    # (the final state of a case is printed once per `ran` vector)
            seen_cases.add(key)
            uniq.append(c)
    if ctx.quick:                    # quick: every group of <= 2 jobs, a seeded sample of the larger ones
        big = [c for c in uniq if c["c"]["n"] > 2]
        uniq = [c for c in uniq if c["c"]["n"] <= 2] + rng.sample(big, min(300, len(big)))
    for c in uniq:
        case = c["c"]
        grp = lab.new_group(case, make_payloads(rng, case["n"], False), rng.randrange(3))
        rec = run_events(ctx, grp, canonical_events(case["n"]), None, "tlc-exhaustive")
        ctx.count_eval()
        ctx.count_impl_trace()
        outs = [r["out"] for r in rec if r and r["a"][0] == "parse"]
        # (an element whose error does not unpickle: the repaired outcome is as good as the as-built one)
        same = [o == list(m) or (case["beh"][j] == "rt" and o == ["err", j + 1, 1])
                for j, (o, m) in enumerate(zip(outs, c["out"]))]
        if len(outs) == case["n"] and not all(same):
            _viol(ctx, f"outcomes {outs} differ from RemoteJob.tla {c['out']} for case {case}",
                          {"kind": "proto", "case": case, "events": canonical_events(case["n"]), "source": "tlc"})
        if nontrivial_case(case):
            ctx.distinct(("proto", case))
    ctx.note("protocol_cases", {"enumerated_by_tlc": len(seen_cases), "run_on_the_real_code": len(uniq)})
    ctx.sample({"source": "tlc-exhaustive case", "case": pcases[len(pcases) // 2]})

    st.done("cases_on_real_protocol")
    # ---- 3. spec -> code: simulated behaviours, event by event ---------------------------------
    nsim = ctx.pick(150, 4000)
    s = run_tlc("seq/RemoteJob_Gen.tla", gen_cfg(ctx.pick(3, 4), 1, ("proto",), 2, emit="Emit", view=False, sim=True,
                                                  invs=("GOutcomeUnlessDev",), props=()),
                ctx.scratch, workers=1, simulate=f"num={nsim}", depth=16, seed=ctx.seed + 1, env=JVM_SHORT, timeout=1200)
    ctx.require(s.error is None and not s.violated, f"simulation failed: {s.error} {s.violated}\n{s.out[-1500:]}")
    ctx.add_tlc(s)
    behs = s.recs("BEH")
    ctx.require(len(behs) > nsim // 5, f"too few simulated behaviours: {len(behs)}")
    drift = 0
    for b in behs:
        case = b["c"]
        grp = lab.new_group(case, make_payloads(rng, case["n"], False), rng.randrange(3), rng.choice(lab.index_vars))
        events = [h["a"] for h in b["hist"]]
        rec = run_events(ctx, grp, events, b["hist"], "tlc-simulate")
        drift += 1 if rec and rec[-1] is None else 0
        ctx.count_eval()
        ctx.count_impl_trace()
        if nontrivial_case(case):
            ctx.distinct(("proto", case, events))
    ctx.sample({"source": "tlc-simulate behaviour", "behaviour": behs[0]})

    st.done("simulated_behaviours_replayed")
    # ---- 4. names and reunite ------------------------------------------------------------------
    check_names(ctx, ncases, rng)
    if ctx.quick:                    # quick: every single remote job, a seeded sample of the pairs
        pairs = [c for c in rcases if len(c["R"]) > 1]
        rsel = [c for c in rcases if len(c["R"]) == 1] + rng.sample(pairs, min(400, len(pairs)))
    else:
        rsel = rcases
    ctx.note("reunite_cases", {"enumerated_by_tlc": len(rcases), "run_on_the_real_code": len(rsel)})
    check_reunite(ctx, rsel, lab, rng, ctx.pick(20, 300))
    ctx.sample({"source": "reunite case", "case": rcases[len(rcases) // 3]})

    st.done("names_and_reunite")
    # ---- 5. code -> spec: larger recorded executions ---------------------------------------------
    traces, groups = [], []
    for _ in range(ctx.pick(60, 1500)):
        n = rng.randint(1, 12)
        array = n >= 2 and rng.random() < 0.75
        beh = [rng.choice(["ok", "ok", "ok", "raise", "unp", "rt"]) for _ in range(n)]
        stale = ["none"] * n
        for j in rng.sample(range(n), rng.randint(0, min(3, n))):
            stale[j] = rng.choice(["err", "junk"] + (["out"] if beh[j] == "ok" else []))
        case = {"n": n, "array": 1 if array else 0, "beh": beh, "stale": stale, "nocache": 1 if rng.random() < 0.3 else 0}
        grp = lab.new_group(case, make_payloads(rng, n, True), rng.randrange(3), rng.choice(lab.index_vars))
        todo = [["work", i] for i in range(1, n + 1)]
        todo += [["work", i] for i in rng.sample(range(1, n + 1), rng.randint(0, min(2, n)))]   # retries
        rng.shuffle(todo)
        events, worked = [["submit", 0]], set()
        pend = list(range(1, n + 1))
        while todo or pend:
            can_parse = [i for i in pend if i in worked and not any(t[1] == i for t in todo)]
            if can_parse and (not todo or rng.random() < 0.4):
                i = rng.choice(can_parse)
                pend.remove(i)
                events.append(["parse", i])
            else:
                t = todo.pop(0)
                worked.add(t[1])
                events.append(t)
        rec = run_events(ctx, grp, events, None, "recorded")
        if len(rec) == len(events):
            traces.append({"c": case, "ev": rec})
            groups.append(grp)
    # negative control: one parsed outcome attributed to a neighbour element
    src_i = next(i for i, t in enumerate(traces) if t["c"]["n"] >= 2 and any(e["a"][0] == "parse" for e in t["ev"]))
    bad = copy.deepcopy(traces[src_i])
    k = next(i for i, e in enumerate(bad["ev"]) if e["a"][0] == "parse")
    bad["ev"][k]["out"][1] = bad["ev"][k]["out"][1] % bad["c"]["n"] + 1
    traces.append(bad)
    # negative control: a container that also wrote its neighbour's output
    bad2 = copy.deepcopy(traces[src_i])
    k2 = next(i for i, e in enumerate(bad2["ev"]) if e["a"][0] == "work")
    j = bad2["ev"][k2]["a"][1] % bad2["c"]["n"]
    bad2["ev"][k2]["obs"][j] = [1 - bad2["ev"][k2]["obs"][j][0], bad2["ev"][k2]["obs"][j][1]]
    traces.append(bad2)
    verdicts, tres = validate(ctx, traces, "recorded")
    ctx.require(len(verdicts) == len(traces), f"verdicts {len(verdicts)} != traces {len(traces)}")
    ctx.negative_control(not verdicts[len(traces) - 1][0] and verdicts[len(traces) - 1][1] == k + 1,
                         "a parsed outcome attributed to another element must be rejected by TLC at that event")
    ctx.negative_control(not verdicts[len(traces)][0] and verdicts[len(traces)][1] == k2 + 1,
                         "a container that touched a neighbour's output file must be rejected by TLC at that event")
    for tid in range(1, len(traces) - 1):
        acc, pos = verdicts[tid]
        t = traces[tid - 1]
        ctx.count_eval()
        ctx.count_impl_trace()
        if nontrivial_case(t["c"]):
            ctx.distinct(("proto", t["c"], [e["a"] for e in t["ev"]]))
        if not acc:
            e = t["ev"][pos - 1]
            if e["a"][0] == "parse":
                _viol(ctx, f"recorded execution rejected by RemoteJob_Trace at event {pos} {e['a']}: parsed outcome "
                              f"{e['out']} is not the local outcome (case {t['c']})",
                              {"kind": "proto", "case": t["c"], "events": [x["a"] for x in t["ev"]], "source": "recorded"})
            else:
                drift += 1
                ctx.note("asbuilt_drift_example", {"case": t["c"], "event": e})
    if tres.violated:
        _viol(ctx, f"invariant {tres.violated} of RemoteJob.tla violated on a recorded execution",
                      {"kind": "tlc", "out": tres.out[-3000:]})
    ctx.note("asbuilt_drift", drift)
    ctx.sample({"source": "recorded execution", "case": traces[0]["c"], "events": [e["a"] for e in traces[0]["ev"]],
                "local": [groups[0].describe(i + 1)[:160] for i in range(min(3, traces[0]["c"]["n"]))]})

    st.done("recorded_executions_validated")
    # ---- 6. model-level controls -----------------------------------------------------------------
    ctl = []
    if not ctx.quick:
        ctl += [("index_off_by_one", "GOutcomeOK", ("proto",)), ("error_type_lost", "GOutcomeOK", ("proto",)), ("stale_output_trusted", "GOutcomeOK", ("proto",)),
                ("hash_first_segment", "GNameLaw", ("name",)), ("child_index_shift", "GReunite", ("reunite",))]
    for variant, inv, kinds in ctl:
        r = run_tlc("seq/RemoteJob_Gen.tla", gen_cfg(2, 2, kinds, 1, variant=variant, emit=None, invs=(inv,), props=()),
                    ctx.scratch, workers=2, env=JVM_SHORT, timeout=600)
        expect_violation(r, inv, f"RemoteJob.tla variant {variant}")
        ctx.add_tlc(r)
    if not ctx.quick:
        # retries: two containers per job, every interleaving, groups of <= 3
        r = expect_clean(run_tlc("seq/RemoteJob_Gen.tla", gen_cfg(3, 1, ("proto",), 2, emit=None),
                                 ctx.scratch, workers="auto", env=JVM_LONG, timeout=1500),
                         "RemoteJob_Gen with retries")
        ctx.add_tlc(r)
        # the strict law fails in the as-built model exactly through the named deviation, and holds once it is
        # repaired
        r = run_tlc("seq/RemoteJob_Gen.tla", gen_cfg(2, 1, ("proto",), 1, emit=None, invs=("GOutcomeOK",), props=()),
                    ctx.scratch, workers=2, env=JVM_SHORT, timeout=600)
        expect_violation(r, "GOutcomeOK", "RemoteJob.tla as built, strict OutcomeOK (DevUnreadableError)")
        ctx.add_tlc(r)
        r = expect_clean(run_tlc("seq/RemoteJob_Gen.tla",
                                 gen_cfg(3, 1, ("proto",), 2, emit=None, invs=("GOutcomeOK", "GOneOutcomeFile"), fixed=True),
                                 ctx.scratch, workers=4, env=JVM_LONG, timeout=900),
                         "RemoteJob.tla with DevUnreadableError repaired")
        ctx.add_tlc(r)
        r = run_tlc("seq/RemoteJob_Gen.tla", gen_cfg(2, 1, ("proto",), 1, variant="index_off_by_one", emit=None,
                                                      invs=(), props=("GIsolation",)),
                    ctx.scratch, workers=2, env=JVM_SHORT, timeout=600)
        expect_violation(r, "GIsolation", "RemoteJob.tla isolation control")
        ctx.add_tlc(r)
    st.done("tlc_model_controls")


def replay(ctx: Ctx, rec: dict) -> None:
    r = rec["replay"]
    if r.get("kind") == "proto":
        lab = Lab(ctx)
        case = r["case"]
        grp = lab.new_group(case, make_payloads(ctx.rng, case["n"], False), 0)
        got = run_events(ctx, grp, r["events"], None, "replay")
        if len(got) == len(r["events"]):
            verdicts, _ = validate(ctx, [{"c": case, "ev": got}], "replay")
            if not verdicts[1][0] and got[verdicts[1][1] - 1]["a"][0] == "parse":
                _viol(ctx, f"replayed execution rejected at event {verdicts[1][1]}", r)
    elif r.get("kind") == "name":
        from redun.executors import aws_batch as A

        name = A.get_batch_job_name(r["prefix"], r["hash"], array=bool(r["array"]))
        if A.get_hash_from_job_name(name) != r["hash"] or bool(A.is_array_job_name(name)) != bool(r["array"]):
            _viol(ctx, f"hash / array flag not recovered from {name!r}", r)
    elif r.get("kind") == "reunite":
        check_reunite(ctx, [r["case"]], Lab(ctx), ctx.rng, 1)
    else:
        run(ctx)
