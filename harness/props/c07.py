"""
C07  Results and recorded call graph do not depend on timing.

Spec: Scheduler.tla.  The result side is the invariant Deterministic (every terminal state of every
schedule carries the reference value).  The call-graph side is carried by the keys of the jobs: task,
version, argument and -- for handle arguments -- the fork key assigned by _preprocess_args
(ForkByPosition: the fork key is a function of the program).  Two deviations are modelled:
DevRefork (a job re-entering after waiting for limits forks its handle again; repaired by a fix:
commit, kept switchable so that TLC still shows what it breaks) and DevForkAtExec (as built, the key is
the parent's fork counter at the time the job first executes, so two handle calls whose other
arguments come from siblings finishing in either order swap keys; open finding).  TLC reports the
programs in which the as-built numbering is timing dependent (ForkReport).
Binding: every program is executed along TLC behaviours and seeded random schedules under three limit
configurations (as given, all 1, unlimited); the contract trace spec compares, inside each group
(program, versions, run index), the digest of (result, set of call hashes, argument value hashes)
read back from the database.  A second family (harness/handlelib.py) advances one handle along several
independent branches -- handle values flowing through task results -- under eight schedules each.
"""

from __future__ import annotations

from ..core import Ctx
from .. import schedlab

META = {
    "level": "model_checking",
    "level_text": "TLC: Deterministic over all schedules; ForkByPosition decides which programs have "
                  "schedule-dependent handle keys in the as-built model; recorded executions (TLC "
                  "behaviours + random schedules x 3 limit configurations) are compared per group by TLC "
                  "on the digest of result and recorded call graph.",
    "level_note": "Digest = result + set of call-node hashes + (call hash, position/key, value hash) of "
                  "arguments, read from the Job/CallNode/Argument tables of the execution; timestamps, "
                  "job ids and cached flags excluded.  Only value-returning real runs are compared "
                  "(which siblings start before a failure surfaces is legitimately timing dependent).",
    "technique": "explicit TLA+ as-built scheduler model + TLC; contract trace validation with "
                 "cross-trace digest agreement",
    "rule": "a case is (program, limit configuration, complete schedule); distinct by those; non-trivial "
            "= the group it belongs to has at least two executions to compare",
}

ON = ["determ", "callgraph"]


def _corrupt(t: dict) -> bool:
    if t["hdr"]["group"] and t["evs"][-1].get("outcome") == "value":
        t["hdr"]["digest"] = "0" * 40
        t["hdr"]["_keepgroup"] = 1
        return True
    return False


def run(ctx: Ctx) -> None:
    ctx.assume("task functions are deterministic")
    # the negative control keeps its group so that the digest comparison is what rejects it
    orig_validate = schedlab.validate

    def validate(ctx_, traces, on, what):
        for t in traces:
            if t["hdr"].pop("_keepgroup", None):
                src = next(x for x in traces if x is not t and x["evs"] == t["evs"])
                t["hdr"]["group"] = src["hdr"]["group"]
        return orig_validate(ctx_, traces, on, what)

    schedlab.validate = validate
    try:
        r = schedlab.suite(ctx, ON, n_random_progs=ctx.pick(4, 30), n_sim=ctx.pick(60, 1200),
                           n_random_hist=ctx.pick(70, 1200), alt_limits=True, corrupt=_corrupt, tag="c07")
    finally:
        schedlab.validate = orig_validate
    groups: dict = {}
    for t in r["traces"]:
        if t["hdr"]["group"]:
            groups[t["hdr"]["group"]] = groups.get(t["hdr"]["group"], 0) + 1
    ctx.note("groups_compared", sum(1 for g in groups.values() if g >= 2))
    ctx.note("largest_group", max(groups.values()) if groups else 0)
    ctx.require(sum(1 for g in groups.values() if g >= 2) >= 5, "too few groups with two executions")
    handle_branches(ctx)


def handle_branches(ctx: Ctx) -> None:
    """One handle advanced along independent branches (harness/handlelib.py): every schedule must record the
    same handle states, call hashes and result.  Sched_Trace compares the digests per program."""
    import os
    import uuid

    from .. import handlelib as HL, simloop

    shapes = HL.FIXED + [HL.random_shape(ctx.rng) for _ in range(ctx.pick(6, 60))]
    traces, meta = [], []
    for pi, shape in enumerate(shapes):
        choosers = [("policy", simloop.PolicyChooser(late, newest)) for late in (False, True) for newest in (False, True)]
        choosers += [("random", simloop.RandomChooser(ctx.rng, p)) for p in (0.2, 0.5, 0.8, 0.5)]
        for kind, ch in choosers:
            db = simloop.clone_db(ctx.scratch, f"hb_{pi}_{uuid.uuid4().hex[:6]}.db")
            bk = simloop.open_backend(db)
            try:
                s, d = simloop.make_scheduler(bk, limits={}, chooser=ch)
                eid = str(uuid.uuid4())
                out = simloop.run_controlled(s, d, HL.branches(shape), execution_id=eid)
                digest = schedlab.callgraph_digest(bk, eid)
            finally:
                simloop.close_backend(bk)
                try:
                    os.unlink(db)
                except OSError:
                    pass
            ctx.require(out["outcome"] == "value", f"handle program failed: {out}")
            out = dict(out, value=[str(v) for v in out["value"]])
            rec = {"mode": "real", "cache": True, "limits": {}, "out": out, "events": d.events, "digest": digest}
            traces.append(schedlab.contract_trace({"res": []}, rec, None, None, f"hb{pi}"))
            meta.append({"shape": shape, "schedule": kind, "choices": [e.get("choice") for e in d.events if e["ev"] == "choice"][:60]})
            ctx.count_impl_trace()
            ctx.count_eval()
        ctx.distinct(["handle-branches", shape])
    bad = dict(traces[1], hdr=dict(traces[1]["hdr"], digest="0" * 40))
    verdicts = schedlab.validate(ctx, traces + [bad], ON, "c07_handles")
    ctx.negative_control(not verdicts[-1][0], "a differing digest inside a handle-branch group must be rejected")
    for (acc, pos, why), m in zip(verdicts[:-1], meta):
        if not acc:
            ctx.violation(f"handle branches {m['shape']}: {why} ({m['schedule']} schedule): the handle states / call "
                          f"hashes recorded depend on the completion order of independent branches",
                          {"kind": "handle-branches", **m})
    ctx.note("handle_branch_programs", len(shapes))


def replay(ctx: Ctx, rec: dict) -> None:
    if rec["replay"].get("kind") == "handle-branches":
        from .. import handlelib as HL

        HL.FIXED[:] = [rec["replay"]["shape"]]
        ctx.pick = lambda q, t: 0
        handle_branches(ctx)
        return
    # a digest disagreement needs two executions: re-run the recorded schedule and the default one
    schedlab.replay_record(ctx, rec, ON)
