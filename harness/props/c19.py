"""
C19  Nested values are traversed and rebuilt faithfully.

Spec: spec/common/Values.tla (tagged value trees; MapNested, Leaves, Shape, Relabel, the explicit
stack machine of iter_nested_value, the visiting order of map_nested_value, Python's dict / set
collapse under a non-injective leaf function, the as-built mapper with its named deviations).
TLC (Values_Gen.tla) checks the laws on every tree of the bounded universe:
    Shape(MapNested(f, v)) = Shape(v),  bag(mapper visits) = bag(iterator) = Leaves(v),
    Leaves(MapNested(f, v)) = f[Leaves(v)],  MapNested(f, v) = Relabel(f, v)   (f injective),
    well-formedness preserved and no leaf invented for ANY f,
    as-built mapper: shape law holds except through DevFrozenNonInit / DevSlots.
Binding, both directions:
  spec -> code: TLC prints every enumerated tree with its expected leaves, MapNested(rotation)
      and MapNested(constant); the driver builds each tree from REAL objects (generated namedtuple
      and dataclass types, plain / frozen / slots, non-init fields) and pushes it through
      redun.utils.map_nested_value / iter_nested_value, and, with lazy task calls planted at the
      leaves, through a real Scheduler.run (which is Scheduler.evaluate on the nested value).
  code -> spec: seeded random larger values (opaque container-subclass leaves, frozensets, wider
      dataclasses, arbitrary leaf functions) go through the real functions and the real
      scheduler; (tree, leaf function, yielded leaves, visited leaves, result) is recorded and
      judged by TLC evaluating the operators (Values_Trace.tla).
"""

from __future__ import annotations

import copy
import json
import logging
import os
from collections import Counter
from concurrent.futures import ThreadPoolExecutor

from .. import nested_values as nv
from ..core import Ctx, MachineryError
from ..tlc import expect_clean, expect_violation, run_tlc

META = {
    "level": "model_checking",
    "level_text": "TLC checks the traversal laws (shape, visited = iterated leaves, leaf image, "
                  "relabelling, well-formedness) on every value tree of the bounded universe; every "
                  "enumerated tree is rebuilt from real Python objects and compared with "
                  "map_nested_value / iter_nested_value and with Scheduler.run on lazy leaves; "
                  "thousands of larger random values are recorded from the real code and judged by "
                  "TLC evaluating the specification operators.",
    "level_note": "Bounded depth / width / leaf alphabet; container types are the listed builtins plus "
                  "generated namedtuple / dataclass types; leaves of one value never compare equal "
                  "across types (no 1 / True / 1.0 in one set); leaf functions are relabellings.",
    "technique": "explicit TLA+ spec + TLC exhaustive law check; spec->code replay of every enumerated "
                 "tree on the real functions and scheduler; code->spec batched validation by TLC",
    "rule": "a case is (abstract tree, leaf family, leaf function, seam: map/iter or scheduler); "
            "distinct = distinct such tuple; non-trivial = the tree has at least one container and "
            "at least one leaf on its traversal",
}

ALL_KINDS = '{"list", "tuple", "nt", "set", "dict", "dict2", "dc"}'
LAWS = ["ShapeLaw", "VisitLaw", "LeafLaw", "RelabelLaw", "WFLaw", "AsBuiltShapeUnlessDev",
        "AsBuiltDevRaises"]
FAMS = ["int", "str", "misc"]
DEV_KEYS = {"dataclass-frozen-noninit-field", "dataclass-slots"}


def _tick(ctx: Ctx, label: str) -> None:
    if os.environ.get("VERIF_TIMING"):
        print(f"  [{ctx.elapsed():6.1f}s] {label}", flush=True)


def gen_cfg(nleaf, depth, width, kinds=ALL_KINDS, dcs="{1, 2, 3}", ocls="{}", allf=True, emit=True,
            invs=None, top=None, rootw=None):
    """Config text of Values_Gen.tla.  top = (kinds, dataclass flavours) of the roots of the deepest
    trees (default: all), rootw = width of those roots' child lists (default: width)."""
    invs = ["AllLaws"] + (["Emit"] if emit else []) if invs is None else invs
    tk, td = top or (kinds, dcs)
    return (f"SPECIFICATION Spec\nCONSTANTS\n NLeaf = {nleaf}\n MaxDepth = {depth}\n Width = {width}\n"
            f" Kinds = {kinds}\n DCs = {dcs}\n TopKinds = {tk}\n TopDCs = {td}\n"
            f" RootSeqWidth = {rootw or width}\n OClasses = {ocls}\n"
            f" AllFns = {'TRUE' if allf else 'FALSE'}\n"
            f" EmitOn = {'TRUE' if emit else 'FALSE'}\nCHECK_DEADLOCK FALSE\n"
            + "".join(f"INVARIANT {i}\n" for i in invs))


# --------------------------------------------------------------------------------------------
# running the real code on one tree
# --------------------------------------------------------------------------------------------
class Real:
    def __init__(self):
        try:
            from redun.utils import iter_nested_value, map_nested_value
        except ImportError as e:  # the seam itself is gone
            raise MachineryError(f"redun.utils nested-value functions not importable: {e}")
        self.map, self.iter = map_nested_value, iter_nested_value
        self._sched = None

    def map_tree(self, tree: dict, family: str, f):
        """-> (result tree | ERR, visited leaf nodes, exception text)"""
        obj = nv.build(tree, family)
        visited: list = []
        harness_err: list = []

        def pyf(leaf):
            try:
                node = nv.abstract(leaf, family)
                visited.append(node)
                return nv.build(nv.relabel(f, node), family)
            except Exception as e:  # the harness's own leaf function failed: not redun's fault
                harness_err.append(repr(e))
                raise

        try:
            res = self.map(pyf, obj)
            rtree = nv.abstract(res, family, with_cls=True)
            exc = None
        except Exception as e:
            if harness_err:
                raise MachineryError(f"harness leaf function failed: {harness_err[0]} on {tree}")
            rtree, exc = dict(nv.ERR), f"{type(e).__name__}: {e}"
        return rtree, visited, exc

    def iter_tree(self, tree: dict, family: str):
        obj = nv.build(tree, family)
        return [nv.abstract(x, family) for x in self.iter(obj)]

    # ---- scheduler ---------------------------------------------------------------------------
    def scheduler(self):
        if self._sched is None:
            from redun import Scheduler
            from redun.backends.db import RedunBackendDb

            logging.getLogger("redun").setLevel(logging.ERROR)
            s = Scheduler(backend=RedunBackendDb(db_uri="sqlite:///:memory:"))
            s.load()
            try:
                s.logger.setLevel(logging.ERROR)
            except Exception:
                pass
            self._sched = s
        return self._sched

    def lazy(self, tree: dict, family: str, f):
        """The tree as real containers with a lazy task call at every leaf-like node."""
        leaf_value, _ = nv.tasks()
        return nv.build(tree, family, leaf_hook=lambda node, obj: leaf_value(
            family, json.dumps(nv.relabel(f, node), sort_keys=True)))

    def sched_trees(self, items: list, wrap: bool = False, solo: set | None = None):
        """items: [(tree, family, f)] -> [result tree | ERR] via Scheduler.run, batched; a batch
        that raises is bisected so that every raising tree is identified.  Indices in `solo`
        (trees expected to raise) get a run of their own."""
        solo = solo or set()
        if solo:
            out = [None] * len(items)
            rest = [j for j in range(len(items)) if j not in solo]
            for j, r in zip(rest, self.sched_trees([items[j] for j in rest], wrap)):
                out[j] = r
            for j in sorted(solo):
                out[j] = self.sched_trees([items[j]], wrap)[0]
            return out
        _, passthru = nv.tasks()
        out: list = [None] * len(items)
        budget = [40]  # scheduler runs spent on bisecting failing batches; beyond it items stay None

        def go(lo, hi):
            if budget[0] <= 0:
                return
            s = self.scheduler()
            exprs = [self.lazy(*items[j]) for j in range(lo, hi)]
            if wrap:
                exprs = [passthru(e) for e in exprs]
            try:
                res = s.run(exprs)
                for j, r in zip(range(lo, hi), res):
                    out[j] = nv.abstract(r, items[j][1], with_cls=True)
            except Exception as e:
                # a run that raised leaves jobs behind in the scheduler: start a fresh one
                self._sched = None
                budget[0] -= 1
                if hi - lo == 1:
                    t = dict(nv.ERR)
                    t["exc"] = f"{type(e).__name__}: {e}"
                    out[lo] = t
                else:
                    mid = (lo + hi) // 2
                    go(lo, mid)
                    go(mid, hi)

        step = 500
        for lo in range(0, len(items), step):
            go(lo, min(len(items), lo + step))
        return out


def expected_tree(tree: dict, family: str) -> dict:
    """Model tree -> tree of the expected real object (adds the concrete class names)."""
    return nv.abstract(nv.build(tree, family), family, with_cls=True)


def bag(nodes) -> Counter:
    return Counter(nv.canon(n) for n in nodes)


class Findings:
    """One ctx.violation per key (the first witness), counts for the rest."""

    def __init__(self, ctx: Ctx):
        self.ctx = ctx
        self.counts: Counter = Counter()
        self.unkeyed = 0

    def dev(self, key: str, what: str, replay: dict):
        self.counts[key] += 1
        if self.counts[key] == 1:
            self.ctx.violation(what, replay, key=key)

    def new(self, what: str, replay: dict):
        self.unkeyed += 1
        if self.unkeyed <= 10:
            self.ctx.violation(what, replay, key=None)


DEV_TEXT = {
    "dataclass-frozen-noninit-field":
        "map_nested_value raises FrozenInstanceError on a frozen dataclass with a non-init field "
        "(setattr on the rebuilt frozen instance); Scheduler.evaluate fails the same way",
    "dataclass-slots":
        "map_nested_value raises AttributeError on a dataclass(slots=True) instance "
        "(reads value.__dict__ unconditionally); Scheduler.evaluate fails the same way",
}


def judge(fd: Findings, seam: str, tree, family, fseq, got, want, devs, exc=None):
    """Compare a real result tree with the contract; route through the named deviations."""
    if nv.canon(got) == nv.canon(want):
        return True
    replay = {"tree": nv.strip(tree), "family": family, "f": fseq, "seam": seam,
              "got": got, "want": want, "exc": exc}
    if got["k"] == "error" and devs:
        for d in devs:
            if d not in DEV_KEYS:
                raise MachineryError(f"unknown deviation class from the model: {d}")
            fd.dev(d, f"{DEV_TEXT[d]} [{seam}: {exc or got.get('exc')}]", replay)
    else:
        fd.new(f"{seam}: result differs from MapNested of Values.tla: got {json.dumps(got)[:300]} "
               f"want {json.dumps(want)[:300]}" + (f" ({exc})" if exc else ""), replay)
    return False


# --------------------------------------------------------------------------------------------
# spec -> code
# --------------------------------------------------------------------------------------------
def replay_universe(ctx: Ctx, real: Real, fd: Findings, recs: list, nleaf: int, source: str,
                    sched_every: int = 1, corrupt_control: bool = False):
    rot = lambda i: (i % nleaf) + 1  # noqa: E731  EmitF of Values_Gen
    const = lambda i: 1  # noqa: E731             ConstF
    rot_seq = [rot(i) for i in range(1, nleaf + 1)]
    const_seq = [1] * nleaf
    sched_items, sched_meta = [], []
    stats = Counter()
    dev_sched: Counter = Counter()
    for idx, rec in enumerate(recs):
        v, devs = rec["v"], rec["d"]
        family = FAMS[idx % len(FAMS)]
        nontrivial = v["k"] not in nv.LEAFLIKE and len(rec["l"]) > 0
        want_m = expected_tree(rec["m"], family)
        # mapper, injective f
        got, visited, exc = real.map_tree(v, family, rot)
        ok = judge(fd, "map_nested_value", v, family, rot_seq, got, want_m, devs, exc)
        ctx.count_eval()
        ctx.count_impl_trace()
        model_leaves = bag(rec["l"])
        if got["k"] != "error" and bag(visited) != model_leaves:
            fd.new(f"map_nested_value applied the leaf function to {len(visited)} leaves, the model's "
                   f"Leaves(v) has {len(rec['l'])}: visited {visited} expected {rec['l']}",
                   {"tree": v, "family": family, "f": rot_seq, "seam": "map_nested_value"})
            ok = False
        # iterator
        it = real.iter_tree(v, family)
        if bag(it) != model_leaves:
            fd.new(f"iter_nested_value yielded {it}, the model's Leaves(v) is {rec['l']}",
                   {"tree": v, "family": family, "f": rot_seq, "seam": "iter_nested_value"})
            ok = False
        # mapper, constant f: sets and dict keys must collapse exactly as the model says
        gotc, _, excc = real.map_tree(v, family, const)
        okc = judge(fd, "map_nested_value/const", v, family, const_seq, gotc,
                    expected_tree(rec["c"], family), devs, excc)
        ctx.count_eval()
        stats["ok" if ok and okc else ("dev" if devs else "bad")] += 1
        if nontrivial:
            ctx.distinct([nv.canon(v, True), family, "rot", "map"])
            ctx.distinct([nv.canon(v, True), family, "const", "map"])
        if devs:
            # a deviating tree makes Scheduler.run raise: a few witnesses per class are enough
            # (each costs a scheduler start-up), the mapper above has seen all of them
            cls = tuple(devs)
            dev_sched[cls] += 1
            if dev_sched[cls] > 4:
                continue
        elif idx % sched_every:
            continue
        sched_items.append((v, family, rot))
        sched_meta.append((rot_seq, want_m, devs, nontrivial))
    # the "consequently" clause: lazy expressions anywhere in the containers
    results = real.sched_trees(sched_items, solo={j for j, m in enumerate(sched_meta) if m[2]})
    for (v, family, _), (fseq, want_m, devs, nontrivial), got in zip(sched_items, sched_meta, results):
        if got is None:  # not run: the bisection budget of a failing batch was used up
            stats["sched_skipped"] += 1
            continue
        ok = judge(fd, "Scheduler.run", v, family, fseq, got, want_m, devs, got.get("exc"))
        ctx.count_eval()
        ctx.count_impl_trace()
        stats["sched_ok" if ok else ("sched_dev" if devs else "sched_bad")] += 1
        if nontrivial:
            ctx.distinct([nv.canon(v, True), family, "rot", "sched"])
    if corrupt_control:
        # negative control of the comparison: flip one expected leaf of one emitted tree
        rec = next(r for r in recs if r["l"] and not r["d"] and r["v"]["k"] != "leaf")
        bad = copy.deepcopy(rec["m"])
        node = bad
        while node["k"] not in ("leaf", "oleaf"):
            node = (node["x"] + node["y"])[0]
        node["t"] = node["t"] % nleaf + 1
        got, _, _ = real.map_tree(rec["v"], "int", rot)
        ctx.negative_control(nv.canon(got) != nv.canon(expected_tree(bad, "int")),
                             "an emitted expectation with one leaf flipped must not match the real result")
    ctx.note(f"replay_{source}", dict(stats))
    return stats


# --------------------------------------------------------------------------------------------
# code -> spec
# --------------------------------------------------------------------------------------------
def rand_tree(rng, depth: int, width: int, nleaf: int, need_hashable: bool = False) -> dict:
    leafish = depth <= 1 or rng.random() < 0.22
    if leafish:
        r = rng.random()
        if r < 0.70:
            return nv.N("leaf", rng.randint(1, nleaf))
        if r < 0.85:
            cls = 4 if need_hashable else rng.randint(1, 6)
            return nv.N("oleaf", rng.randint(1, nleaf), [], [cls])
        kids = _distinct([rand_tree(rng, 2, width, nleaf, True) for _ in range(rng.randint(0, width))])
        return nv.N("fset", 0, kids)
    kinds = ["tuple", "nt", "dcf"] if need_hashable else ["list", "tuple", "nt", "set", "dict", "dc", "dcf", "dcs"]
    k = rng.choice(kinds)
    n = rng.randint(0, width)
    sub = lambda h=need_hashable: rand_tree(rng, depth - 1, width, nleaf, h)  # noqa: E731
    if k in ("list", "tuple"):
        return nv.N(k, 0, [sub() for _ in range(n)])
    if k == "nt":
        n = max(1, min(n, nv.MAX_ARITY))
        return nv.N("nt", n, [sub() for _ in range(n)])
    if k == "set":
        return nv.N("set", 0, _distinct([sub(True) for _ in range(n)]))
    if k == "dict":
        keys = _distinct([sub(True) for _ in range(n)])
        return nv.N("dict", 0, keys, [sub() for _ in keys])
    flavour = {"dc": nv.DC_PLAIN, "dcf": nv.DC_FROZEN, "dcs": nv.DC_SLOTS}[k]
    ni = min(n, nv.MAX_ARITY)
    # non-init fields of a frozen dataclass are the known deviation: keep them rare enough that
    # most random values exercise the rest of the mapper
    nn = rng.randint(0, nv.MAX_NONINIT) if (flavour == nv.DC_PLAIN or rng.random() < 0.15) else 0
    if flavour == nv.DC_SLOTS and rng.random() < 0.8:
        flavour = nv.DC_PLAIN
    return nv.N("dc", flavour, [sub() for _ in range(ni)], [sub() for _ in range(nn)])


def _distinct(trees: list) -> list:
    seen, out = set(), []
    for t in trees:
        c = nv.canon(t, keynorm=True)  # distinct as Python set elements / dict keys
        if c not in seen:
            seen.add(c)
            out.append(t)
    return out


def rand_fn(rng, nleaf: int) -> list:
    if rng.random() < 0.6:
        return rng.sample(range(1, 2 * nleaf + 1), nleaf)  # injective into a larger alphabet
    return [rng.randint(1, nleaf) for _ in range(nleaf)]  # arbitrary, usually not injective


def record_cases(ctx: Ctx, real: Real, n: int, depth: int, width: int, nleaf: int) -> list:
    cases, sched_items, sched_idx, raised = [], [], [], []
    for _ in range(n):
        tree = rand_tree(ctx.rng, ctx.rng.randint(2, depth), width, nleaf)
        fseq = rand_fn(ctx.rng, nleaf)
        family = ctx.rng.choice(FAMS)
        f = lambda i, s=fseq: s[i - 1]  # noqa: E731
        got, visited, exc = real.map_tree(tree, family, f)
        it = real.iter_tree(tree, family)
        cases.append({"v": tree, "f": fseq, "it": it, "vis": visited, "r": nv.strip(got), "seam": "map",
                      "family": family, "exc": exc})
        if ctx.rng.random() < 0.5:
            sched_items.append((tree, family, f))
            sched_idx.append(len(cases) - 1)
            raised.append(got["k"] == "error")
    for wrap in (False, True):
        # plain: the value itself is what Scheduler.run evaluates; wrapped: the value is the
        # argument (and the result) of a task, so it also passes argument evaluation,
        # preprocess / postprocess mapping and the value store
        sel = [(it, ix, r) for it, ix, r in zip(sched_items, sched_idx, raised)
               if not wrap or (it[0]["k"] not in ("set",) and ctx.rng.random() < 0.25)]
        # values on which the mapper itself raised get a scheduler run of their own (a raising
        # run would otherwise take its whole batch down; this is batching, not judging)
        res = real.sched_trees([s[0] for s in sel], wrap=wrap, solo={j for j, s in enumerate(sel) if s[2]})
        for ((tree, family, f), ix, _), got in zip(sel, res):
            if got is None:
                continue
            base = cases[ix]
            cases.append({"v": tree, "f": base["f"], "it": base["it"], "vis": base["it"],
                          "r": nv.strip(got), "seam": "sched-arg" if wrap else "sched", "family": family,
                          "exc": got.get("exc")})
    return cases


def validate_cases(ctx: Ctx, cases: list, what: str) -> dict:
    f = ctx.tmp(f"cases_{what}.json")
    f.write_text(json.dumps([{k: c[k] for k in ("v", "f", "it", "vis", "r")} for c in cases]))
    w = min(4, int(os.environ.get("VERIF_WORKERS", "0")) or 4)
    cfg = (f"SPECIFICATION Spec\nCONSTANTS\n Chains = {4 * w}\nINVARIANT Emit\nINVARIANT WellFormedInputs\n"
           "CHECK_DEADLOCK FALSE\n")
    # verdict lines carry their case index, so several workers may print them in any order
    res = run_tlc("common/Values_Trace.tla", cfg, ctx.scratch / f"trace_{what}", workers=w,
                  env={"TRACE_FILE": str(f)}, timeout=900)
    if res.error or res.violated:
        raise MachineryError(f"TLC failed on case validation ({what}): {res.error} {res.violated}\n{res.out[-2500:]}")
    ctx.add_tlc(res)
    verdicts = {v[0]: v[1:] for v in res.recs("VERDICT")}
    ctx.require(len(verdicts) == len(cases), f"verdicts {len(verdicts)} != cases {len(cases)} ({what})")
    return verdicts


def judge_verdicts(ctx: Ctx, fd: Findings, cases: list, verdicts: dict, count: bool = True) -> Counter:
    stats = Counter()
    for i, c in enumerate(cases, start=1):
        it_ok, vis_ok, res_ok, res_ord, shape_ok, asbuilt_ok, devs = verdicts[i]
        replay = {"tree": c["v"], "family": c["family"], "f": c["f"], "seam": c["seam"], "got": c["r"],
                  "exc": c.get("exc")}
        if count:
            ctx.count_eval()
            ctx.count_impl_trace()
            if c["v"]["k"] not in nv.LEAFLIKE and c["it"]:
                ctx.distinct([nv.canon(c["v"], True), c["family"], c["f"], c["seam"]])
        if not it_ok:
            fd.new(f"iter_nested_value leaves rejected by TLC (Leaves of Values.tla): {c['it']}", replay)
        if not vis_ok:
            fd.new(f"leaves visited by map_nested_value rejected by TLC: {c['vis']}", replay)
        if not res_ok:
            if c["r"]["k"] == "error" and devs:
                for d in devs:
                    fd.dev(d, f"{DEV_TEXT[d]} [{c['seam']}: {c.get('exc')}]", replay)
                stats["dev"] += 1
            else:
                fd.new(f"{c['seam']}: result rejected by TLC against MapNested: {json.dumps(c['r'])[:400]}"
                       f" ({c.get('exc')})", replay)
        elif not shape_ok:
            fd.new(f"{c['seam']}: Shape(result) # Shape(v) for an injective leaf function", replay)
        else:
            stats["ok"] += 1
            if not res_ord:
                stats["strict_equality_drift_dict_order_or_surviving_equal_key"] += 1
            if not asbuilt_ok:
                stats["deviation_not_taken"] += 1
    return stats


# --------------------------------------------------------------------------------------------
def run(ctx: Ctx) -> None:
    ctx.assume("leaf functions are relabellings of leaf ids (they keep the leaf's Python class)",
               "equal-but-differently-typed leaves (1, True, 1.0) never meet in one set / dict",
               "dataclass fields are declared init fields first, then non-init fields",
               "opaque leaves = instances of subclasses of list / dict / set / tuple (no _fields), "
               "OrderedDict-like, defaultdict, deque, frozenset: the code never enters them")
    real = Real()
    fd = Findings(ctx)

    # TLC runs are started in the background (each costs seconds of JVM start-up) while the main
    # thread records real executions; at most `ahead` universe runs are in flight / in memory
    # quick universes are a few thousand states: 4 workers do (16 JVM workers only add scheduling
    # pressure); the thorough universes use TLC's default
    w = int(os.environ.get("VERIF_WORKERS", "0")) or ctx.pick(4, "auto")
    pool = ThreadPoolExecutor(max_workers=4)

    def tlc_bg(name, module, cfg, **kw):
        return pool.submit(run_tlc, module, cfg, ctx.scratch / name, **kw)

    # ---- 1. laws on the whole universe + emission (spec -> code): configurations ----------------
    opaque = dict(nleaf=3, depth=2, width=ctx.pick(2, 3), ocls="{1, 2, 3, 4, 5, 6}",
                  kinds='{"list", "tuple", "nt", "set", "fset", "dict", "dict2", "dc"}')
    if ctx.quick:
        # depth 3 over two leaf values; the roots' child LISTS have one slot, two slots are kept
        # where they play different roles (set elements, dict key/value, init/non-init field)
        # (frozen dataclasses stay inside the trees; as ROOTS with a non-init field they all take
        # the same deviation, so the quick tier leaves those 3.8k roots to the thorough tier)
        runs = [("d3_l2_w2_rootlists1", dict(nleaf=2, depth=3, width=2, rootw=1, top=(ALL_KINDS, "{1, 3}"))),
                ("d2_l3_w2_opaque", opaque)]
    else:
        runs = [("d3_l2_w2", dict(nleaf=2, depth=3, width=2)), ("d2_l3_w3_opaque", opaque)]
        # the full 3-leaf, depth-3, width-2 universe, one root kind at a time (memory)
        for kinds, dcs in [('{"list"}', "{}"), ('{"tuple"}', "{}"), ('{"nt"}', "{}"),
                           ('{"set", "dict"}', "{}"), ('{"dc"}', "{1}"), ('{"dc"}', "{2}"), ('{"dc"}', "{3}")]:
            runs.append((f"d3_l3_w2_root{kinds}{dcs}".replace('"', "").replace(" ", ""),
                         dict(nleaf=3, depth=3, width=2, top=(kinds, dcs))))
    ahead = 2
    futs = {}

    def start(k):
        if k < len(runs):
            name, kw = runs[k]
            futs[k] = tlc_bg(name, "common/Values_Gen.tla", gen_cfg(**kw), workers=w, timeout=1500, heap="8g")

    for k in range(ahead):
        start(k)

    # ---- 2. model-level controls (background) ---------------------------------------------------
    small = dict(nleaf=2, depth=2, width=2, emit=False)
    ctl_bad = tlc_bg("ctl_bad", "common/Values_Gen.tla",
                     gen_cfg(invs=["AsBuiltShapeStrict", "ShapeLawAnyF"], **small), workers=1, extra=["-continue"])
    ctl_ok = None
    if not ctx.quick:
        ctl_ok = tlc_bg("ctl_ok", "common/Values_Gen.tla",
                        gen_cfg(invs=LAWS + ["AsBuiltShapeStrict"], dcs="{1}", **small), workers=1)

    # ---- 3. code -> spec: random larger values, recorded now, judged by TLC ----------------------
    n = ctx.pick(300, 4000)
    cases = record_cases(ctx, real, n, depth=ctx.pick(4, 5), width=ctx.pick(3, 4), nleaf=4)
    # negative controls: (a) one yielded leaf dropped, (b) one result leaf changed
    src = next(c for c in cases if c["seam"] == "map" and c["r"]["k"] not in ("error", "leaf", "oleaf", "fset")
               and len(c["it"]) >= 2 and _first_leaf(c["r"]) is not None)
    bad_it = copy.deepcopy(src)
    bad_it["it"] = bad_it["it"][1:]
    bad_r = copy.deepcopy(src)
    _first_leaf(bad_r["r"])["t"] += 1
    allc = cases + [bad_it, bad_r]
    _tick(ctx, f"{len(cases)} real executions recorded")
    vfut = pool.submit(validate_cases, ctx, allc, "random")

    # ---- 1'. replay of every emitted tree --------------------------------------------------------
    total = Counter()
    for k, (name, kw) in enumerate(runs):
        res = expect_clean(futs.pop(k).result(), f"Values_Gen laws ({name})")
        start(k + ahead)
        ctx.add_tlc(res)
        _tick(ctx, f"universe {name} enumerated by TLC")
        recs = res.recs("TREE")
        res.out = ""
        res.records = {}
        ctx.require(len(recs) == res.distinct, f"{name}: {len(recs)} trees emitted, {res.distinct} states")
        ctx.note(f"universe_{name}", len(recs))
        every = 1 if (ctx.quick or kw["nleaf"] < 3 or kw["depth"] < 3) else 3
        total += replay_universe(ctx, real, fd, recs, kw["nleaf"], name, sched_every=every,
                                 corrupt_control=(k == 0))
        if k == 0:
            mid = next(r for r in recs[len(recs) // 2:] if not r["d"] and len(r["l"]) >= 2)
            ctx.sample({"source": f"tlc-universe {name}", "tree": mid["v"], "leaves": mid["l"],
                        "mapped": mid["m"]})
        del recs
    _tick(ctx, "universes replayed")
    ctx.note("replay_totals", dict(total))

    # ---- 2'. controls ---------------------------------------------------------------------------
    r = ctl_bad.result()
    expect_violation(r, "AsBuiltShapeStrict", "as-built mapper breaks the shape law (through its deviations)")
    expect_violation(r, "ShapeLawAnyF", "shape law needs an injective leaf function (sets / dict keys merge)")
    ctx.add_tlc(r)
    if ctl_ok is not None:
        r = expect_clean(ctl_ok.result(), "named laws one by one; as-built mapper keeps the shape law once the "
                                          "deviating dataclass flavours are excluded")
        ctx.add_tlc(r)

    # ---- 3'. verdicts on the recorded executions ---------------------------------------------------
    verdicts = vfut.result()
    pool.shutdown()
    _tick(ctx, "recorded executions judged by TLC")
    ctx.negative_control(verdicts[len(cases) + 1][0] == 0, "a recorded iteration with one leaf dropped must be rejected by TLC")
    ctx.negative_control(verdicts[len(cases) + 2][2] == 0, "a recorded result with one leaf changed must be rejected by TLC")
    stats = judge_verdicts(ctx, fd, cases, {i: verdicts[i] for i in range(1, len(cases) + 1)})
    ctx.note("random_cases", dict(stats, total=len(cases)))
    ctx.sample({"source": "recorded-real-call", "case": {k: cases[0][k] for k in ("v", "f", "it", "r", "seam")}})

    # ---- 4. container classes outside the generated families -----------------------------------
    extras(ctx, real, fd)
    ctx.note("deviation_witness_counts", dict(fd.counts))


def _first_leaf(tree: dict):
    if tree["k"] == "leaf":
        return tree
    if tree["k"] in ("oleaf", "fset", "error"):
        return None
    for c in tree["x"] + tree["y"]:
        n = _first_leaf(c)
        if n is not None:
            return n
    return None


def extras(ctx: Ctx, real: Real, fd: Findings) -> None:
    """Type variants outside the generated families (compared directly, they have no tree kind of
    their own), and the record of which container classes the code treats as leaves."""
    import collections

    tn = nv.NTTyped(1001, 1002)
    nd = collections.namedtuple("ND", "a b", defaults=[1003])(1001)
    inc = lambda x: x + 1 if type(x) is int else x  # noqa: E731
    for name, obj in (("typing.NamedTuple", tn), ("namedtuple-with-default", nd)):
        res = real.map(inc, obj)
        if not (type(res) is type(obj) and tuple(res) == tuple(inc(x) for x in obj)):
            fd.new(f"{name} rebuilt as {type(res).__name__} {res!r}", {"extra": name})
        ctx.count_eval()
    probes = {"frozenset": frozenset([1]), "list subclass": nv.MyList([1]), "dict subclass": nv.MyDict(a=1),
              "set subclass": nv.MySet([1]), "tuple subclass": nv.MyTuple((1,)),
              "OrderedDict": collections.OrderedDict(a=1), "defaultdict": collections.defaultdict(int, a=1),
              "deque": collections.deque([1]), "typing.NamedTuple": tn, "range": range(2)}
    as_leaf = {}
    for name, obj in probes.items():
        it = list(real.iter(obj))
        as_leaf[name] = len(it) == 1 and it[0] is obj
        seen: list = []
        real.map(lambda x: seen.append(x) or x, obj)
        if (len(seen) == 1 and seen[0] is obj) != as_leaf[name]:
            fd.new(f"iter_nested_value and map_nested_value disagree on whether a {name} is a leaf",
                   {"extra": name})
    ctx.note("classes_treated_as_leaves", as_leaf)


def replay(ctx: Ctx, rec: dict) -> None:
    r = rec["replay"]
    if "tree" not in r:
        return run(ctx)
    real = Real()
    fd = Findings(ctx)
    tree, family, fseq = r["tree"], r["family"], r["f"]
    f = lambda i: fseq[i - 1]  # noqa: E731
    if r.get("seam", "map").startswith("Scheduler") or r.get("seam", "").startswith("sched"):
        got = real.sched_trees([(tree, family, f)], wrap=r.get("seam") == "sched-arg")[0]
        it = real.iter_tree(tree, family)
        case = {"v": tree, "f": fseq, "it": it, "vis": it, "r": nv.strip(got), "seam": "sched", "family": family,
                "exc": got.get("exc")}
    else:
        got, visited, exc = real.map_tree(tree, family, f)
        case = {"v": tree, "f": fseq, "it": real.iter_tree(tree, family), "vis": visited, "r": nv.strip(got),
                "seam": "map", "family": family, "exc": exc}
    verdicts = validate_cases(ctx, [case], "replay")
    judge_verdicts(ctx, fd, [case], verdicts, count=False)
