"""
C38  Sub-scheduler runs are equivalent to direct evaluation.

Spec: spec/eval/Eval.tla, expression kind "subrun": Ev(subrun(e)) = Ev(e) under the calling job's
context and exported options, whether the sub-scheduler extends the current execution or starts a new
one.  Eval_Oracle judges the observed outcome of real executions and additionally requires the facts
the harness reads from the shared database: when the current execution is extended, the sub-execution's
jobs hang under the job of the subrun task in the same execution; when a new execution is requested, a
second execution row exists and holds them; and no lookup for the subrun task itself was answered from
the single-reduction cache (observed at the backend's public check_cache).
Binding: seeded programs of the C01 generator (results and errors), each evaluated through a real
subrun() -- the sub-scheduler is a genuine second Scheduler with its own thread / process pools on the
same sqlite file -- in both modes, twice in a row on the same backend (so that cache paths are taken).
"""

from __future__ import annotations

import copy
import json
import os
import uuid

from ..core import Ctx
from .. import evallab as EL, simloop

META = {
    "level": "model_checking",
    "level_text": "The explicit semantics (TLC-evaluated) gives subrun(e) the outcomes of e; real sub-scheduler "
                  "executions in both modes, repeated on the same backend, are judged by TLC together with "
                  "database facts about job attachment, execution rows and the kind of cache answers.",
    "level_note": "The subrun task runs on the controlled executor's thread (a real second Scheduler with "
                  "LocalExecutor pools inside); remote executors, config_dir loading and code packaging are "
                  "out of scope.",
    "technique": "explicit TLA+ semantics evaluated by TLC as oracle; code->spec validation of outcomes and "
                 "database facts",
    "rule": "a case is (program, new_execution flag, first or repeated run); distinct by those; non-trivial = "
            "the sub-expression contains a task call",
}


def run_case(ctx: Ctx, e: dict, newexec: int, tag: str) -> list[dict]:
    """Runs subrun(e) twice on one database; returns two observation records."""
    from redun.backends.db import Execution, Job
    from redun.scheduler import _subrun_root_task
    from redun.task import CacheResult

    db = simloop.clone_db(ctx.scratch, f"c38_{tag}.db")
    EL.SUBRUN_CONFIG = {"backend": {"db_uri": f"sqlite:///{db}"}}
    prog = {"k": "subrun", "e": e, "newexec": newexec}
    out = []
    for rep in range(2):
        bk = simloop.open_backend(db)
        answers = []
        orig = bk.check_cache

        def check_cache(task_hash, *a, _orig=orig, **kw):
            r = _orig(task_hash, *a, **kw)
            if task_hash == _subrun_root_task.hash:
                answers.append(r[2])
            return r

        bk.check_cache = check_cache
        try:
            s, d = simloop.make_scheduler(bk, limits={}, chooser=simloop.RandomChooser(ctx.rng, 0.5),
                                          executors=("default", "process"))
            eid = str(uuid.uuid4())
            n_exec_before = bk.session.query(Execution).count()
            o = simloop.run_controlled(s, d, EL.build(prog), execution_id=eid)
            obs = EL.outcome_of(o)
            bk.session.expire_all()
            jobs = bk.session.query(Job).filter(Job.execution_id == eid).all()
            sub = [j for j in jobs if j.task and j.task.name == "subrun_root_task"]
            flags = {"no_single_hit_for_subrun": 0 if any(a == CacheResult.SINGLE for a in answers) else 1}
            ran_sub = bool(sub) and not all(j.cached for j in sub) and any(
                a in (CacheResult.MISS,) for a in answers)
            n_exec_after = bk.session.query(Execution).count()
            if ran_sub and newexec == 0:
                # the sub-execution's root job hangs under the subrun task's job, in this execution
                kids = [j for j in jobs if j.parent_id in {x.id for x in sub}]
                flags["sub_jobs_under_calling_job"] = 1 if kids else 0
                flags["no_extra_execution_row"] = 1 if n_exec_after == n_exec_before + 1 else 0
            if ran_sub and newexec == 1:
                flags["new_execution_row"] = 1 if n_exec_after == n_exec_before + 2 else 0
                kids = [j for j in jobs if j.parent_id in {x.id for x in sub}]
                flags["sub_jobs_not_in_calling_execution"] = 0 if kids else 1
            out.append({"e": prog, "obs": obs, "flags": flags, "rep": rep, "ran_sub": ran_sub,
                        "answers": [str(a) for a in answers]})
        finally:
            simloop.close_backend(bk)
    try:
        os.unlink(db)
    except OSError:
        pass
    return out


def edit_history(ctx: Ctx, newexec: int, tag: str, check_valid=None) -> None:
    """subrun(sv(1)); edit sv; subrun(sv(1)) again on the same backend: the second result must be the
    edited task's (no stale answer for the subrun task from the single-reduction cache)."""
    import importlib.util
    import sys

    from redun.backends.db import Execution
    from redun.scheduler import _subrun_root_task, subrun
    from redun.task import CacheResult

    d = ctx.scratch / f"c38mod_{tag}"
    d.mkdir(parents=True, exist_ok=True)
    modname = f"c38mod_{tag}_{os.getpid()}"
    db = simloop.clone_db(ctx.scratch, f"c38e_{tag}.db")
    cfg = {"backend": {"db_uri": f"sqlite:///{db}"}}
    results, answers = [], []
    for k in (10, 20):
        path = d / f"{modname}.py"
        path.write_text(f"from redun import task\n\nredun_namespace = 'c38e{tag}'\n\n\n@task()\ndef sv(x):\n    return x + {k}\n")
        import linecache

        linecache.checkcache(str(path))
        spec = importlib.util.spec_from_file_location(modname, path)
        mod = importlib.util.module_from_spec(spec)
        sys.modules[modname] = mod
        spec.loader.exec_module(mod)
        bk = simloop.open_backend(db)
        orig = bk.check_cache

        def check_cache(task_hash, *a, _orig=orig, **kw):
            r = _orig(task_hash, *a, **kw)
            if task_hash == _subrun_root_task.hash:
                answers.append(r[2])
            return r

        bk.check_cache = check_cache
        try:
            s, dr = simloop.make_scheduler(bk, limits={})
            sub = subrun if check_valid is None else subrun.options(check_valid=check_valid)
            expr = sub(mod.sv(1), executor="default", config=cfg, new_execution=bool(newexec),
                       load_modules=[modname])
            o = simloop.run_controlled(s, dr, expr, execution_id=str(uuid.uuid4()))
            results.append(o.get("value", o["outcome"]))
        finally:
            simloop.close_backend(bk)
    ctx.count_eval()
    ctx.count_impl_trace()
    ctx.distinct(["edit-history", newexec, check_valid])
    if results != [11, 21]:
        stale_ultimate = results == [11, 11] and answers and answers[-1] == CacheResult.ULTIMATE
        ctx.violation(f"subrun(sv(1)) before / after editing sv returned {results}, direct evaluation gives [11, 21] "
                      f"(new_execution={bool(newexec)}, check_valid={check_valid}; cache answers for the subrun task: {[str(a) for a in answers]})",
                      {"history": "subrun(sv(1)); edit sv: x+10 -> x+20; subrun(sv(1))", "newexec": newexec,
                       "results": results}, key="subrun-shallow-hit-after-edit" if stale_ultimate else None)
    if any(a == CacheResult.SINGLE for a in answers):
        ctx.violation("a lookup for the subrun task was answered from the single-reduction cache",
                      {"history": "subrun(sv(1)); edit sv; subrun(sv(1))", "answers": [str(a) for a in answers]})
    try:
        os.unlink(db)
    except OSError:
        pass


def nocache_history(ctx: Ctx, newexec: int, tag: str) -> None:
    """subrun(sv(1)); then the same again in an execution run with cache=False: direct evaluation with cache=False
    executes sv again, so the sub-scheduler must too (the run configuration reaches the sub-scheduler)."""
    import importlib.util
    import sys

    from redun.scheduler import subrun

    d = ctx.scratch / f"c38nc_{tag}"
    d.mkdir(parents=True, exist_ok=True)
    modname = f"c38nc_{tag}_{os.getpid()}"
    counter = d / "count.txt"
    counter.write_text("")
    path = d / f"{modname}.py"
    path.write_text(f"from redun import task\n\nredun_namespace = 'c38nc{tag}'\n\n\n@task()\ndef sv(x):\n"
                    f"    open({str(counter)!r}, 'a').write('x')\n    return x + 10\n")
    spec = importlib.util.spec_from_file_location(modname, path)
    mod = importlib.util.module_from_spec(spec)
    sys.modules[modname] = mod
    spec.loader.exec_module(mod)
    db = simloop.clone_db(ctx.scratch, f"c38nc_{tag}.db")
    cfg = {"backend": {"db_uri": f"sqlite:///{db}"}}
    results, counts = [], []
    for cache in (True, False):
        bk = simloop.open_backend(db)
        try:
            s, dr = simloop.make_scheduler(bk, limits={})
            expr = subrun(mod.sv(1), executor="default", config=cfg, new_execution=bool(newexec), load_modules=[modname])
            o = simloop.run_controlled(s, dr, expr, cache=cache, execution_id=str(uuid.uuid4()))
            results.append(o.get("value", o["outcome"]))
            counts.append(len(counter.read_text()))
        finally:
            simloop.close_backend(bk)
    ctx.count_eval()
    ctx.count_impl_trace()
    ctx.distinct(["nocache-history", newexec])
    if results != [11, 11] or counts != [1, 2]:
        ctx.violation(f"subrun(sv(1)) run twice, the second time in an execution with cache=False: results {results}, sv had "
                      f"executed {counts} times after each run; direct evaluation gives [11, 11] and executes sv once per run "
                      f"(new_execution={bool(newexec)})",
                      {"history": "subrun(sv(1)); run(cache=False) subrun(sv(1))", "newexec": newexec, "results": results,
                       "counts": counts})
    try:
        os.unlink(db)
    except OSError:
        pass


def dry_history(ctx: Ctx, newexec: int, tag: str) -> None:
    """subrun(sv(1)) for real, then a dry run of the same on that backend, then a real run again: as for direct
    evaluation, the dry run completes with the value (everything is cached) -- if it stops early, the following
    real run has to execute at least one task (C28 through a sub-scheduler)."""
    import importlib.util
    import sys

    from redun.scheduler import subrun

    d = ctx.scratch / f"c38dry_{tag}"
    d.mkdir(parents=True, exist_ok=True)
    modname = f"c38dry_{tag}_{os.getpid()}"
    counter = d / "count.txt"
    counter.write_text("")
    path = d / f"{modname}.py"
    path.write_text(f"from redun import task\n\nredun_namespace = 'c38dry{tag}'\n\n\n@task()\ndef sv(x):\n"
                    f"    open({str(counter)!r}, 'a').write('x')\n    return x + 10\n")
    spec = importlib.util.spec_from_file_location(modname, path)
    mod = importlib.util.module_from_spec(spec)
    sys.modules[modname] = mod
    spec.loader.exec_module(mod)
    db = simloop.clone_db(ctx.scratch, f"c38dry_{tag}.db")
    cfg = {"backend": {"db_uri": f"sqlite:///{db}"}}
    outs, counts = [], []
    for dry in (False, True, False):
        bk = simloop.open_backend(db)
        try:
            s, dr = simloop.make_scheduler(bk, limits={})
            expr = subrun(mod.sv(1), executor="default", config=cfg, new_execution=bool(newexec), load_modules=[modname])
            o = simloop.run_controlled(s, dr, expr, dryrun=dry, execution_id=str(uuid.uuid4()))
            outs.append(o.get("value", o["outcome"]))
            counts.append(len(counter.read_text()))
        finally:
            simloop.close_backend(bk)
    ctx.count_eval()
    ctx.count_impl_trace()
    ctx.distinct(["dry-history", newexec])
    executed_by_last_real_run = counts[2] - counts[1]
    if outs[0] != 11 or outs[2] != 11 or counts[1] != counts[0] or \
            (outs[1] != 11 and executed_by_last_real_run == 0):
        ctx.violation(f"subrun(sv(1)): real run, dry run, real run on one backend gave {outs} with sv executed {counts} times "
                      f"in total after each run: a dry run executes nothing, and if it stops early the next real run must "
                      f"execute something (new_execution={bool(newexec)})",
                      {"history": "run subrun(sv(1)); dry run; run", "newexec": newexec, "outs": [str(o) for o in outs],
                       "counts": counts})
    try:
        os.unlink(db)
    except OSError:
        pass


def run(ctx: Ctx) -> None:
    ctx.assume("the sub-scheduler shares the sqlite backend file of the calling scheduler")
    for ne in (0, 1):
        dry_history(ctx, ne, f"d{ne}")
    for ne in (0, 1):
        nocache_history(ctx, ne, f"n{ne}")
    for ne in (0, 1):
        for cv in (None, "full", "shallow"):
            edit_history(ctx, ne, f"h{ne}{cv or 'd'}", cv)
    cases = []
    n = ctx.pick(24, 300)
    fixed = [EL.call("twice", EL.V(3)), EL.call("boom", EL.V(1)), EL.call("safe", EL.V(2)),
             {"k": "list", "items": [EL.call("inc", EL.V(1)), EL.call("pinc", EL.V(2))]},
             EL.call("withdef", EL.call("ainc", EL.V(1)))]
    progs = fixed + [EL.random_expr(ctx.rng, ctx.rng.randint(1, 3)) for _ in range(n)]
    nsub = 0
    for i, e in enumerate(progs):
        for newexec in (0, 1):
            for rec in run_case(ctx, e, newexec, f"{i}_{newexec}"):
                rec["id"] = len(cases) + 1
                cases.append(rec)
                nsub += 1 if rec["ran_sub"] else 0
    ctx.note("sub_schedulers_started", nsub)
    ctx.require(nsub >= len(progs), f"too few sub-scheduler runs actually happened ({nsub})")
    good = next(c for c in cases if c["obs"]["t"] == "int")
    bad1 = copy.deepcopy(good)
    bad1["id"] = len(cases) + 1
    bad1["obs"]["v"] += 1
    bad2 = copy.deepcopy(good)
    bad2["id"] = len(cases) + 2
    bad2["flags"]["no_single_hit_for_subrun"] = 0
    payload = [{"id": c["id"], "e": c["e"], "ctx": EL.to_value({}), "run": EL.to_value({}), "obs": c["obs"],
                "flags": c["flags"]} for c in cases + [bad1, bad2]]
    verdicts = EL.judge(ctx, payload, "subrun")
    ctx.negative_control(not verdicts[bad1["id"]][0], "a subrun result that differs from direct evaluation must be rejected")
    ctx.negative_control(not verdicts[bad2["id"]][0], "a single-reduction answer for the subrun task must be rejected")
    for c in cases:
        acc, nouts, exp = verdicts[c["id"]]
        ctx.count_eval()
        ctx.count_impl_trace()
        if '"k": "call"' in json.dumps(c["e"]["e"]):
            ctx.distinct([c["e"], c["rep"]])
        if not acc:
            ctx.violation(
                f"subrun(new_execution={bool(c['e']['newexec'])}, run #{c['rep'] + 1}) returned {json.dumps(c['obs'])[:200]} "
                f"with facts {c['flags']}; direct evaluation admits {json.dumps(exp)[:200] if exp else 'the same value (facts failed)'} "
                f"for {json.dumps(c['e']['e'])[:250]}", {"case": {k: c[k] for k in ('e', 'obs', 'flags', 'rep', 'answers')}})
    ctx.sample({"program": cases[0]["e"], "observed": cases[0]["obs"], "facts": cases[0]["flags"]})


def replay(ctx: Ctx, rec: dict) -> None:
    c = rec["replay"]["case"]
    recs = run_case(ctx, c["e"]["e"], c["e"]["newexec"], "replay")
    payload = [{"id": i + 1, "e": r["e"], "ctx": EL.to_value({}), "run": EL.to_value({}), "obs": r["obs"],
                "flags": r["flags"]} for i, r in enumerate(recs)]
    v = EL.judge(ctx, payload, "replay")
    for i, r in enumerate(recs):
        if not v[i + 1][0]:
            ctx.violation(f"replayed subrun case rejected: {r['obs']} {r['flags']}", rec["replay"])
