"""
C29  Script tasks run exactly the given command with correct staging.

Spec: spec/seq/Script.tla.  Command texts are sequences of abstract lines (terminator candidates
EOF, EOF1, ... and their look-alikes, shebang, ordinary, blank; indentation and trailing blanks are
numbers); prepare_command (dedent, strip, default shell), the get_command_eof loop (run step by
step, with its variant as an invariant), get_wrapped_command and the POSIX here-document reading
(body = lines up to the FIRST line equal to the delimiter; literal only if the delimiter is quoted),
the text script() assembles (stage parts, wrapper, unstage parts), its execution over an abstract
file system, and postprocess_script's shape map (MapNested of Values.tla).  Laws (invariants):
terminator is no line of the text, the shell reads back exactly the prepared text (also after the
executor prepares the assembled text a second time), the prepared text is the dedented text under
the default shell unless it starts with #!, every input is at its local path while the command
runs, every remote output ends up holding what the command made, result = shape map of outputs.

Binding, both directions:
  spec -> code  every enumerated command (Script_Gen) is rendered to text and goes through the real
                prepare_command / get_command_eof / get_wrapped_command, compared with the model
                (prepared text, candidate index for prepared and raw text) and with the here-
                document law evaluated on the real wrapper; every enumerated input / output
                structure goes through the real script() and postprocess_script and the assembled
                parts and the result are compared with the model's; a seeded sample of wrappers is
                executed by real sh and bash (the temp file is captured byte for byte, and printed by
                the command itself), a seeded sample of script() calls runs on a real Scheduler
                with staging files in the scratch directory.
  code -> spec  generated larger texts (concrete bytes: quotes, $, backquotes, backslashes,
                braces, look-alikes such as EOF0 / "EOF" / EOF1x, other prefixes) and deeper
                structures are recorded from the real functions, abstracted by a purely syntactic
                line abstraction, and validated by TLC (Script_Trace), corrupted records included.
"""

from __future__ import annotations

import copy
import json
import logging
import os
import re
import shutil
import subprocess
from pathlib import Path

from ..core import Ctx, MachineryError
from ..tlc import expect_clean, expect_violation, run_tlc

META = {
    "level": "model_checking",
    "level_text": "TLC checks, for every command text of up to 4 lines over the line alphabet (9 line kinds "
                  "in the quick tier, 15 in the thorough one) and every input / output structure of depth <= 2, that the "
                  "here-document terminator is no line of the text, that a POSIX shell reads back "
                  "exactly the prepared text, that the prepared text is the dedented text under the "
                  "default shell unless it starts with a shebang, that inputs are staged before and "
                  "outputs unstaged after the command, and that the result is the shape map of the "
                  "outputs; every enumerated case is run through the real functions and compared, "
                  "samples are executed by real sh / bash and a real Scheduler, and larger generated "
                  "texts and structures are recorded from the code and validated by TLC.",
    "level_note": "Bytes inside a line are concrete only (pools chosen by the generator; the model "
                  "sees line identity, indentation, trailing blanks, candidate index, 'has expansion "
                  "characters'); indentation uses spaces (tabs / mixed margins of textwrap.dedent and "
                  "the non-blank whitespace str.strip() also removes are not modelled); staging is "
                  "exercised with local paths only (cp / cp -r), cloud file systems' shell_copy text is "
                  "not executed; dict-shaped *inputs* are outside the domain (script() raises "
                  "AttributeError on their keys).",
    "technique": "explicit TLA+ spec (state machine per script() call + algebraic laws) checked by TLC; "
                 "spec->code replay of every enumerated case on the real functions, samples through real "
                 "sh/bash and a real Scheduler; code->spec batched validation of recorded outputs by TLC",
    "rule": "a case is one command text or one (inputs, outputs) structure; distinct = distinct text / "
            "structure; non-trivial = the text contains a terminator candidate line, or preparing it "
            "changes it (dedent / strip / shebang), or the structure holds at least one staging pair or "
            "the stdout file",
}

JVM_SHORT = {"JAVA_TOOL_OPTIONS": "-XX:ParallelGCThreads=2 -XX:TieredStopAtLevel=1"}
JVM_LONG = {"JAVA_TOOL_OPTIONS": "-XX:ParallelGCThreads=4"}

# leaf kinds of Script.tla
K_STDOUT, K_STAGE, K_FILE, K_SDIR, K_PLAIN, K_RFILE, K_RDIR, K_BYTES = 1, 2, 3, 4, 5, 6, 7, 8
TOK = {1: "eof", 2: "shebang", 3: "other", 4: "blank", 5: "open"}

# concrete line pools: harmless when a shell executes them, no leading / trailing blanks, not a candidate
PLAIN = ["echo hello", "ls -l /", ": ok", "x=1", "# a comment", "echo 'a b'  c", "true && : || :",
         "echo {command} {eof} {0} {}", "echo h\u00e9llo \u2713", "echo \"it's\"", "echo a;echo b", "}", "{",
         "echo %s %d %(x)s", "done_marker=1", "echo ')' '('"]
SPECIAL = ['echo "$HOME" `echo hi` \\\\', "echo $((1+2)) \\$x", 'printf "%s\\n" "$@"', "echo \\`x\\` $0 ${y:-z}",
           "awk '$3 == \"blue\"' /dev/null | wc -l", "echo \\", "echo $$ $? $!", "echo '\\n' \"\\t\" \\\\"]
SHEBANGS = ["#!/bin/sh", "#!/usr/bin/env python", "#!/bin/cat", "#! /bin/sh -e", "#!/usr/bin/env bash"]



def _viol(ctx: Ctx, what: str, replay, key=None) -> None:
    """ctx.violation, capped: a broken tree fails thousands of cases, thirty replay files are enough."""
    if key is not None:
        seen = ctx.__dict__.setdefault("_keys_reported", set())
        if key in seen:
            return                      # one report per named deviation
        seen.add(key)
        ctx.violation(what, replay, key=key)
    elif sum(1 for v in ctx.violations if v["key"] is None) < 30:
        ctx.violation(what, replay, key=key)


def api():
    import redun.scripting as S
    from redun.file import Dir, File

    for name in ("prepare_command", "get_command_eof", "get_wrapped_command", "script",
                 "postprocess_script", "DEFAULT_SHELL"):
        if not hasattr(S, name):
            raise MachineryError(f"redun.scripting.{name} is gone: the seam C29 observes disappeared")
    return S, File, Dir


# ------------------------------------------------------------------------- abstraction / rendering
def L(ind, tok, n, sp, tr):
    return {"ind": ind, "tok": tok, "n": n, "sp": sp, "tr": tr}


class Abs:
    """The syntactic line abstraction (text -> records of Script.tla) for one terminator prefix."""

    def __init__(self, prefix: str):
        self.prefix = prefix
        self.cand = re.compile(re.escape(prefix) + r"([1-9][0-9]*)?")
        # group 3: the operator is <<- (the shell strips leading tabs from the body and the delimiter line)
        self.opn = re.compile(r"<<(?P<dash>-?)([\"']?)(" + re.escape(prefix) + r"(?:[1-9][0-9]*)?)\2$")

    def index_of(self, eof: str) -> int:
        m = self.cand.fullmatch(eof)
        return int(m.group(1) or 0) if m else -1

    def name(self, k: int) -> str:
        return self.prefix + (str(k) if k else "")

    def line(self, s: str, ids: dict) -> dict:
        body = s.lstrip(" ")
        ind = len(s) - len(body)
        core = body.rstrip(" ")
        tr = len(body) - len(core)
        if core == "":
            return L(len(s), "blank", 0, 0, 0)
        m = self.cand.fullmatch(core)
        if m:
            return L(ind, "eof", int(m.group(1) or 0), 0, tr)
        m = self.opn.search(core)
        if m:
            return L(ind, "open", int(m.group(3)[len(self.prefix):] or 0), 1 if m.group(2) else 0, tr)
        n = ids.setdefault(core, len(ids) + 1)
        sp = 1 if any(ch in core for ch in "$`\\") else 0
        return L(ind, "shebang" if core.startswith("#!") else "other", n, sp, tr)

    def text(self, t: str, ids: dict) -> list:
        return [self.line(s, ids) for s in t.split("\n")]

    def shell_read(self, wrapped: str):
        """POSIX here-document reading of the first operator whose delimiter is a candidate:
        (delimiter, quoted, body lines, terminated)."""
        lines = wrapped.split("\n")
        for o, l in enumerate(lines):
            m = self.opn.search(l)
            if m:
                break
        else:
            return None
        delim = m.group(3)
        rest = lines[o + 1:]
        if m.group("dash"):
            rest = [x.lstrip("\t") for x in rest]
        try:
            t = rest.index(delim)
        except ValueError:
            return delim, bool(m.group(2)), rest, False
        return delim, bool(m.group(2)), rest[:t], True


def render_line(enc, prefix, contents) -> str:
    ind, tok, n, sp, tr = enc
    tok = TOK[tok]
    if tok == "blank":
        return " " * ind
    if tok == "eof":
        core = prefix + (str(n) if n else "")
    elif tok == "open":
        core = "cat <<" + ('"%s"' if sp else "%s") % (prefix + (str(n) if n else ""))
    else:
        core = contents[(tok, n)]
    return " " * ind + core + " " * tr


def render(encs, prefix, contents) -> str:
    return "\n".join(render_line(e, prefix, contents) for e in encs)


def pick_contents(rng, dsh_lines, shebang=None):
    c = {("shebang", 1): shebang or rng.choice(SHEBANGS), ("other", 1): rng.choice(PLAIN),
         ("other", 2): rng.choice(SPECIAL)}
    for i, l in enumerate(dsh_lines):
        c[("shebang" if i == 0 else "other", 91 + i)] = l
    return c


# ------------------------------------------------------------------------- real sh
class ShLab:
    """Runs a wrapper through a real shell; `rm` is shadowed by a shim that keeps a copy of the file
    the wrapper is about to remove (the temp file the here-document wrote)."""

    def __init__(self, ctx: Ctx):
        self.dir = ctx.tmp("shlab/x").parent
        (self.dir / "bin").mkdir(parents=True, exist_ok=True)
        (self.dir / "tmp").mkdir(exist_ok=True)
        real_rm, real_cp = shutil.which("rm"), shutil.which("cp")
        if not real_rm or not real_cp:
            raise MachineryError("no rm / cp on PATH")
        shim = self.dir / "bin" / "rm"
        shim.write_text(f'#!/bin/sh\nfor a in "$@"; do last="$a"; done\n{real_cp} "$last" "$VERIF_KEEP"\n'
                        f'exec {real_rm} "$@"\n')
        shim.chmod(0o755)
        self.keep = self.dir / "kept"
        self.env = dict(os.environ, PATH=f"{self.dir / 'bin'}{os.pathsep}{os.environ.get('PATH', '')}",
                        VERIF_KEEP=str(self.keep), TMPDIR=str(self.dir / "tmp"))
        self.shells = [s for s in ("sh", "bash") if shutil.which(s)]
        if "sh" not in self.shells:
            raise MachineryError("no sh on PATH")

    def run(self, shell: str, wrapped: str):
        if self.keep.exists():
            self.keep.unlink()
        p = subprocess.run([shell, "-c", wrapped], env=self.env, capture_output=True, timeout=60,
                           cwd=str(self.dir), stdin=subprocess.DEVNULL)
        kept = self.keep.read_bytes() if self.keep.exists() else None
        return kept, p.stdout, p.returncode


# ------------------------------------------------------------------------- command cases
class CmdChecker:
    def __init__(self, ctx: Ctx):
        self.ctx = ctx
        self.S, self.File, self.Dir = api()
        self.dsh_lines = self.S.DEFAULT_SHELL.rstrip("\n").split("\n")
        if not self.dsh_lines[0].startswith("#!"):
            raise MachineryError("DEFAULT_SHELL does not start with a shebang: Script.tla's DSH shape is off")
        self.stats = {"cmd_cases": 0, "strip_inside_line": 0, "max_candidate": 0}
        self.abs_eof = Abs("EOF")

    def real(self, text: str, prefix: str):
        """(prepared, eof, wrapped, raw eof, raw wrapped) from the real functions."""
        S = self.S
        prep = S.prepare_command(text)
        if prefix == "EOF":
            return prep, S.get_command_eof(prep), S.get_wrapped_command(prep), S.get_command_eof(text), \
                S.get_wrapped_command(text)
        return (prep, S.get_command_eof(prep, eof_prefix=prefix), S.get_wrapped_command(prep, eof_prefix=prefix),
                S.get_command_eof(text, eof_prefix=prefix), S.get_wrapped_command(text, eof_prefix=prefix))

    def heredoc_law(self, a: Abs, text: str, eof: str, wrapped: str):
        """None if the shell reads `text` back out of `wrapped` with delimiter `eof`, else what is wrong."""
        if eof in text.split("\n"):
            return f"terminator {eof!r} equals a line of the command"
        r = a.shell_read(wrapped)
        if r is None:
            return "no here-document operator with a candidate delimiter in the wrapper"
        delim, quoted, body, terminated = r
        if delim != eof:
            return f"wrapper uses delimiter {delim!r}, get_command_eof returned {eof!r}"
        if not terminated:
            return "here-document is never terminated"
        if "\n".join(body) != text:
            return "a shell reads a different body out of the here-document (first line equal to the delimiter ends it)"
        if not quoted and any(ch in text for ch in "$`\\"):
            return "unquoted delimiter: the shell would expand the body"
        return None

    def check_model_case(self, c: dict, contents: dict, source: str) -> tuple:
        """spec -> code for one enumerated command.  Returns (text, prepared, wrapped, raw wrapped)."""
        ctx, a = self.ctx, self.abs_eof
        text = render(c["cmd"], "EOF", contents)
        want = render(c["txt"], "EOF", contents)
        rep = {"kind": "cmd", "text": text, "prefix": "EOF", "source": source}
        try:
            prep, eof, wrapped, reof, rwrapped = self.real(text, "EOF")
        except Exception as e:  # noqa
            _viol(ctx, f"scripting functions raised {type(e).__name__}: {e} on {text!r}", rep)
            return text, None, None, None
        if prep != want:
            _viol(ctx, f"prepare_command({text!r}) = {prep!r}, Script.tla: {want!r}", rep)
        # which free candidate is chosen is as-built detail (the model takes the least one): a different
        # choice is drift, not a violation; the laws are judged on the real wrapper right below
        if eof != a.name(c["eof"]) or reof != a.name(c["raweof"]):
            self.stats["terminator_choice_drift"] = self.stats.get("terminator_choice_drift", 0) + 1
        bad = self.heredoc_law(a, prep, eof, wrapped)
        if bad:
            _viol(ctx, f"get_wrapped_command({prep!r}): {bad}", rep)
        bad = self.heredoc_law(a, text, reof, rwrapped)
        if bad:
            _viol(ctx, f"get_wrapped_command({text!r}): {bad}", rep)
        self.stats["cmd_cases"] += 1
        self.stats["strip_inside_line"] += c["strip"]
        self.stats["max_candidate"] = max(self.stats["max_candidate"], c["eof"], c["raweof"])
        ctx.count_eval()
        ctx.count_impl_trace()
        if c["eof"] or c["raweof"] or len(c["txt"]) != len(c["cmd"]) + len(self.dsh_lines) \
                or c["txt"][-len(c["cmd"]):] != c["cmd"]:
            ctx.distinct(("cmd", c["cmd"]))
        return text, prep, wrapped, rwrapped

    def record(self, text: str, prefix: str) -> dict:
        """code -> spec: run the real functions, abstract everything with one id table."""
        a, ids = Abs(prefix), {}
        prep, eof, wrapped, reof, rwrapped = self.real(text, prefix)
        dsh = [a.line(s, ids) for s in self.dsh_lines]
        return {"kind": "cmd", "cmd": a.text(text, ids), "dsh": dsh, "prep": a.text(prep, ids),
                "eof": a.index_of(eof), "wrap": a.text(wrapped, ids), "reof": a.index_of(reof),
                "rwrap": a.text(rwrapped, ids),
                "_text": text, "_prefix": prefix, "_prep": prep, "_wrapped": wrapped, "_eof": eof}


def gen_text(rng, prefix: str) -> str:
    """A larger command text with everything the abstraction distinguishes and more inside the lines."""
    look = [prefix + "0", prefix + "01", prefix.lower() + "x", '"' + prefix + '"', prefix + "1x", "x" + prefix,
            prefix + " 1", prefix + "_1", "'" + prefix + "1'", prefix + prefix, "<<" + prefix + "x"]
    opens = ["cat <<" + prefix, 'cat <<"' + prefix + '1"', "python - <<'" + prefix + "'", "cat > f <<" + prefix + "2"]
    n = rng.randint(1, 28)
    base = rng.choice([0, 0, 2, 4, 8])
    top = rng.randint(0, 7)
    lines = []
    for _ in range(n):
        r = rng.random()
        ind = base + rng.choice([0, 0, 0, 2, 4]) if rng.random() < 0.85 else rng.randint(0, 3)
        if r < 0.10:
            lines.append(" " * rng.choice([0, 0, 1, 3, base]))
            continue
        if r < 0.32:
            k = rng.randint(0, top)
            core = prefix + (str(k) if k else "")
        elif r < 0.42:
            core = rng.choice(look)
        elif r < 0.49:
            core = rng.choice(SHEBANGS)
        elif r < 0.56:
            core = rng.choice(opens)
        else:
            core = rng.choice(PLAIN + SPECIAL)
        lines.append(" " * ind + core + " " * rng.choice([0, 0, 0, 0, 1, 2]))
    if rng.random() < 0.5:      # the whole chain prefix, prefix1 .. prefix<top> at the margin
        for k in range(top + 1):
            lines.insert(rng.randint(0, len(lines)), " " * base + prefix + (str(k) if k else ""))
    if rng.random() < 0.3:      # a shebang first, as in a triple-quoted script
        lines.insert(0, " " * base + rng.choice(SHEBANGS))
    if rng.random() < 0.6:
        lines = [""] + lines + [" " * rng.choice([0, 4, 8])]
    return "\n".join(lines)


# ------------------------------------------------------------------------- staging cases
def leaf(i):
    return {"k": "leaf", "t": i, "x": [], "y": []}


def lid(kind, l, r):
    return kind * 100 + l * 10 + r


class IoWorld:
    """Concrete objects for the abstract structures of one case, in its own directory."""

    def __init__(self, lab: "IoLab", name: str, td: bool):
        self.lab, self.td = lab, td
        self.dir = lab.root / name
        self.dir.mkdir(parents=True, exist_ok=True)
        self.tag = name

    def path(self, i: int, local: bool = False) -> str:
        if self.td and local:
            return f"p{i}"
        return str(self.dir / f"p{i}")

    def build(self, node):
        File, Dir = self.lab.File, self.lab.Dir
        k = node["k"]
        if k == "leaf":
            t = node["t"]
            kind, l, r = t // 100, (t % 100) // 10, t % 10
            if kind == K_STDOUT:
                return File("-")
            if kind == K_STAGE:
                return File(self.path(r)).stage(self.path(l, l != r))
            if kind == K_SDIR:
                return Dir(self.path(r)).stage(self.path(l, l != r))
            if kind == K_FILE:
                return File(self.path(r, True))
            if kind == K_PLAIN:
                return f"k{r}" if l == 1 else r
            raise MachineryError(f"unexpected leaf id {t}")
        if k == "list":
            return [self.build(c) for c in node["x"]]
        if k == "tuple":
            return tuple(self.build(c) for c in node["x"])
        if k == "dict":
            return {self.build(a): self.build(b) for a, b in zip(node["x"], node["y"])}
        raise MachineryError(f"unexpected node kind {k}")

    def pid(self, p: str) -> int:
        m = re.fullmatch(r"p([0-9])", os.path.basename(p.rstrip("/")))
        return int(m.group(1)) if m else 0

    def unbuild(self, v):
        """Python value -> tagged tree with the leaf ids of Script.tla."""
        File, Dir, Staging = self.lab.File, self.lab.Dir, self.lab.Staging
        if type(v) is list:
            return {"k": "list", "t": 0, "x": [self.unbuild(c) for c in v], "y": []}
        if type(v) is tuple:
            return {"k": "tuple", "t": 0, "x": [self.unbuild(c) for c in v], "y": []}
        if type(v) is dict:
            return {"k": "dict", "t": 0, "x": [self.unbuild(c) for c in v.keys()],
                    "y": [self.unbuild(c) for c in v.values()]}
        if isinstance(v, bytes):
            return leaf(lid(K_BYTES, 0, 0))
        if isinstance(v, Staging):
            kind = K_SDIR if isinstance(v.remote, Dir) else K_STAGE
            return leaf(lid(kind, self.pid(v.local.path), self.pid(v.remote.path)))
        if isinstance(v, File):
            return leaf(lid(K_STDOUT, 0, 0)) if v.path == "-" else leaf(lid(K_RFILE, 0, self.pid(v.path)))
        if isinstance(v, Dir):
            return leaf(lid(K_RDIR, 0, self.pid(v.path)))
        if isinstance(v, str) and re.fullmatch(r"k[0-9]", v):
            return leaf(lid(K_PLAIN, 1, int(v[1])))
        if isinstance(v, int):
            return leaf(lid(K_PLAIN, 0, v))
        return leaf(899)


def iter_leaves(node):
    if node["k"] == "leaf":
        yield node
    else:
        for c in node["x"] + node["y"]:
            yield from iter_leaves(c)


class IoLab:
    def __init__(self, ctx: Ctx):
        self.ctx = ctx
        self.S, self.File, self.Dir = api()
        from redun.file import Staging

        self.Staging = Staging
        self.root = ctx.tmp("io/x").parent
        self.n = 0
        self._sched = None

    def assemble(self, ins: dict, outs: dict, td: bool, command: str = "echo hello", name=None):
        """Real script(): returns (world, expr, recorded parts, recorded result tree)."""
        self.n += 1
        w = IoWorld(self, name or f"c{self.n}", td)
        pins, pouts = w.build(ins), w.build(outs)
        expr = self.S.script(command, inputs=pins, outputs=pouts, tempdir=td)
        args = getattr(expr, "args", None)
        if not args or not isinstance(args[0], str) or len(args) < 3:
            raise MachineryError("script() no longer returns an expression whose arguments are "
                                 "(command text, inputs, outputs)")
        full, pre_outs = args[0], args[2]
        temp_path = (getattr(expr, "kwargs", {}) or {}).get("temp_path")
        wrapped = self.S.get_wrapped_command(self.S.prepare_command(command))
        at = full.find(wrapped)
        if at < 0:
            raise MachineryError("script() does not embed get_wrapped_command(prepare_command(command)): "
                                 "cannot cut the assembled text into parts")
        stage_txt, unstage_txt = {}, {}
        for n_ in iter_leaves(ins):
            if n_["t"] // 100 in (K_STAGE, K_SDIR):
                stage_txt[w.build(n_).render_stage()] = n_["t"]
        for n_ in iter_leaves(outs):
            if n_["t"] // 100 in (K_STAGE, K_SDIR):
                unstage_txt[w.build(n_).render_unstage()] = n_["t"]
        segs = []
        before = full[:at].split("\n")[:-1] if at > 0 else []
        for ln in before:
            if ln == "":
                segs.append({"k": "noop", "a": 0})
            elif ln in stage_txt:
                segs.append({"k": "stage", "a": stage_txt[ln]})
            elif ln in unstage_txt:
                segs.append({"k": "unstage", "a": unstage_txt[ln]})
            elif td and ln.startswith("cd "):
                segs.append({"k": "cd", "a": 0})
            else:
                segs.append({"k": "unknown", "a": 0})
        segs.append({"k": "wrap", "a": 0})
        after = full[at + len(wrapped):]
        for ln in (after.split("\n")[1:] if after else []):
            if ln == "":
                segs.append({"k": "noop", "a": 0})
            elif ln in unstage_txt:
                segs.append({"k": "unstage", "a": unstage_txt[ln]})
            elif ln in stage_txt:
                segs.append({"k": "stage", "a": stage_txt[ln]})
            else:
                segs.append({"k": "unknown", "a": 0})
        res = self.S.postprocess_script.func(b"<stdout>", pre_outs)
        if temp_path:
            shutil.rmtree(temp_path, ignore_errors=True)
        return w, expr, segs, w.unbuild(res)

    # ---- end to end -------------------------------------------------------------------------
    def scheduler(self):
        if self._sched is None:
            from redun import Scheduler
            from redun.backends.db import RedunBackendDb

            logging.getLogger("redun").setLevel(logging.CRITICAL)
            self._sched = Scheduler(backend=RedunBackendDb(db_uri="sqlite:///:memory:"))
            self._sched.load()
        return self._sched

    def run_e2e(self, ins: dict, outs: dict, td: bool, lines: list, mode: str, source: str) -> dict:
        """script() through a real Scheduler.  `lines` is the user's command text (list of lines); the
        harness puts a first line in front that prints the command file and makes the outputs from
        the staged inputs (mode 'interp': a shebang naming a generated interpreter, so that no shell
        ever interprets the rest; mode 'bash': an ordinary line ending in `exit 0` under the default
        shell).  Returns the record for Script_Trace (kind io)."""
        ctx = self.ctx
        self.n += 1
        name = f"e{self.n}"
        w = IoWorld(self, name, td)
        in_leaves = [n for n in iter_leaves(ins) if n["t"] // 100 in (K_STAGE, K_SDIR)]
        out_leaves = [n for n in iter_leaves(outs) if n["t"] // 100 in (K_STAGE, K_SDIR, K_FILE)]
        seen = ""
        reads = []
        for n_ in in_leaves:
            kind, l, r = n_["t"] // 100, (n_["t"] % 100) // 10, n_["t"] % 10
            content = f"IN{r}:{name}\n"
            if kind == K_SDIR:
                os.makedirs(w.path(r), exist_ok=True)
                Path(w.path(r), "a").write_text(content)
                reads.append(self._q(w.path(l, l != r)) + "/a")
            else:
                Path(w.path(r)).write_text(content)
                reads.append(self._q(w.path(l, l != r)))
            seen += content
        makes, expect = [], {}
        for n_ in out_leaves:
            kind, l, r = n_["t"] // 100, (n_["t"] % 100) // 10, n_["t"] % 10
            if kind == K_FILE:
                l = r
            lp = w.path(l, True if kind == K_FILE else l != r)
            body = "{ printf 'OUT%d:'; cat %s /dev/null; }" % (l, " ".join(reads))
            if kind == K_SDIR:
                makes.append(f"mkdir -p {self._q(lp)} && {body} > {self._q(lp)}/z")
                expect[(K_RDIR, r)] = f"OUT{l}:" + seen
            else:
                makes.append(f"{body} > {self._q(lp)}")
                if not (td and kind == K_FILE):     # a plain output file inside the (removed) tempdir
                    expect[(K_RFILE, r)] = f"OUT{l}:" + seen
        if mode == "interp":
            interp = self.dir_file(w, "interp")
            interp.write_text("#!/bin/sh\ncat \"$1\"\n" + "\n".join(makes) + "\n")
            interp.chmod(0o755)
            first = f"#!{interp}"
        else:
            first = "; ".join(['cat "$0"'] + makes + ["exit 0"])
        command = "\n".join([first] + lines)
        rep = {"kind": "e2e", "ins": ins, "outs": outs, "td": td, "lines": lines, "mode": mode, "source": source}
        pins, pouts = w.build(ins), w.build(outs)
        try:
            expr = self.S.script(command, inputs=pins, outputs=pouts, tempdir=td)
            result = self.scheduler().run(expr)
        except Exception as e:  # noqa
            _viol(ctx, f"script() run raised {type(e).__name__}: {e}", rep)
            return {}
        prepared = self.S.prepare_command(command)
        tree = w.unbuild(result)
        # concrete checks: stdout is the temp file (= prepared text + newline), remote outputs hold
        # what the command made from the staged inputs
        for leaf_v in self._leaves_py(result):
            if isinstance(leaf_v, bytes) and leaf_v != (prepared + "\n").encode():
                _viol(ctx, f"stdout of the script is not the prepared command + newline: {leaf_v!r} vs "
                              f"{(prepared + chr(10)).encode()!r}", rep)
        for (kind, r), want in expect.items():
            p = Path(w.path(r), "z") if kind == K_RDIR else Path(w.path(r))
            got = p.read_text() if p.exists() else None
            if got != want:
                _viol(ctx, f"remote output p{r} holds {got!r}, the command made {want!r} "
                              "(inputs not staged before / outputs not unstaged after the command)", rep)
        ctx.count_eval()
        ctx.count_impl_trace()
        return {"kind": "io", "ins": ins, "outs": outs, "td": 1 if td else 0, "segs": None, "res": tree,
                "_rep": rep, "_command": command}

    @staticmethod
    def dir_file(w: IoWorld, name: str) -> Path:
        return w.dir / name

    @staticmethod
    def _q(p: str) -> str:
        import shlex

        return shlex.quote(p)

    def _leaves_py(self, v):
        if type(v) in (list, tuple):
            for c in v:
                yield from self._leaves_py(c)
        elif type(v) is dict:
            for a, b in v.items():
                yield from self._leaves_py(a)
                yield from self._leaves_py(b)
        else:
            yield v


def gen_structure(rng, leaves, depth: int, keys=("k1", "k2", "k3")):
    """Random tagged tree over the given leaf ids (lists, tuples, dicts with string keys)."""
    if depth == 0 or rng.random() < 0.3:
        return leaf(rng.choice(leaves))
    kind = rng.choice(["list", "tuple", "dict"])
    n = rng.randint(0, 3)
    kids = [gen_structure(rng, leaves, depth - 1) for _ in range(n)]
    if kind == "dict":
        ks = [leaf(lid(K_PLAIN, 1, i + 1)) for i in range(n)]
        return {"k": "dict", "t": 0, "x": ks, "y": kids}
    return {"k": kind, "t": 0, "x": kids, "y": []}


# ------------------------------------------------------------------------- TLC runs
INVS = ("EofLoopBound", "TerminatorOK", "HeredocOK", "RawOK", "PrepareOK", "OuterPrepareTransparent",
        "ExecutedOK", "StagingOK", "ShapeOK", "StagedBeforeRun")


def gen_cfg(mode: str, max_lines: int, rich: bool, dsh_len: int, variant: str = "asbuilt", emit=True,
            invs=INVS, spec="GSpec", props=()) -> str:
    cfg = (f'SPECIFICATION {spec}\nCONSTANTS\n Mode = "{mode}"\n MaxLines = {max_lines}\n '
           f'Rich = {"TRUE" if rich else "FALSE"}\n DshLen = {dsh_len}\n Variant = "{variant}"\n')
    cfg += "".join(f"INVARIANT {i}\n" for i in invs)
    cfg += "".join(f"PROPERTY {p}\n" for p in props)
    if emit:
        cfg += "INVARIANT Emit\n"
    return cfg + "CHECK_DEADLOCK FALSE\n"


def validate(ctx: Ctx, cases: list, what: str):
    """Batch-validate recorded cases with TLC (Script_Trace).  Returns ({i: verdict}, {i: ioverdict})."""
    f = ctx.tmp(f"script_cases_{what}.json")
    f.write_text(json.dumps([{k: v for k, v in c.items() if not k.startswith("_")} for c in cases]))
    cfg = 'SPECIFICATION TSpec\nCONSTANTS\n Variant = "asbuilt"\nINVARIANT Verdict\nCHECK_DEADLOCK FALSE\n'
    res = run_tlc("seq/Script_Trace.tla", cfg, ctx.scratch, workers=4, env=dict(JVM_SHORT, TRACE_FILE=str(f)),
                  timeout=900)
    if res.error or res.violated:
        raise MachineryError(f"TLC failed on Script_Trace ({what}): {res.error} {res.violated}\n{res.out[-2500:]}")
    ctx.add_tlc(res)
    v = {r[0]: r[1:] for r in res.recs("VERDICT")}
    iv = {r[0]: r[1:] for r in res.recs("IOVERDICT")}
    ctx.require(len(v) + len(iv) == len(cases), f"Script_Trace returned {len(v) + len(iv)} verdicts for {len(cases)} cases")
    return v, iv


CMD_LAWS = ["prepare_command did not return the dedented text under the default shell / the given shebang",
            "the here-document terminator equals a line of the prepared command",
            "a shell does not read the prepared command back out of the wrapper",
            "terminator / here-document law fails for the unprepared text",
            "the executor's second prepare_command changes the here-document"]
IO_LAWS = ["a stage part after / an unstage part before the command, or a needed copy missing",
           "executing the assembled parts does not leave every remote output with what the command made "
           "from the staged inputs",
           "the result is not the outputs with staging pairs -> remote files and File('-') -> stdout"]


def judge(ctx: Ctx, cases: list, v: dict, iv: dict, skip=()):
    drift = 0
    for i, c in enumerate(cases, start=1):
        if i in skip:
            continue
        if c["kind"] == "cmd":
            ver = v[i]
            rep = {"kind": "cmd", "text": c["_text"], "prefix": c["_prefix"], "source": "generated"}
            for j, law in enumerate(CMD_LAWS):
                if not ver[j]:
                    _viol(ctx, f"{law}: text {c['_text']!r} prefix {c['_prefix']!r} "
                                  f"prepared {c['_prep']!r} terminator {c['_eof']!r}", rep)
            drift += 0 if ver[5] else 1
            if c["eof"] or c["reof"] or c["prep"][-len(c["cmd"]):] != c["cmd"]:
                ctx.distinct(("cmd", c["_text"]))
        else:
            ver = iv[i]
            rep = c.get("_rep") or {"kind": "io", "ins": c["ins"], "outs": c["outs"], "td": c["td"]}
            for j, law in enumerate(IO_LAWS):
                if c["segs"] is None and j < 2:
                    continue
                if not ver[j]:
                    _viol(ctx, f"{law}: inputs {json.dumps(c['ins'])} outputs {json.dumps(c['outs'])} "
                                  f"parts {c['segs']} result {json.dumps(c['res'])}", rep)
            if c["segs"] is not None:
                drift += 0 if ver[3] else 1
            if any(n["t"] // 100 in (K_STDOUT, K_STAGE, K_SDIR, K_FILE) for n in iter_leaves(c["outs"])) or \
                    any(True for _ in iter_leaves(c["ins"])):
                ctx.distinct(("io", c["ins"], c["outs"], c["td"]))
        ctx.count_eval()
        ctx.count_impl_trace()
    return drift


class Stages:
    """Wall seconds per stage, kept in the evidence (and printed when VERIF_TIMING is set)."""

    def __init__(self, ctx: Ctx):
        self.ctx, self.t, self.d = ctx, ctx.elapsed(), {}

    def done(self, name: str) -> None:
        now = self.ctx.elapsed()
        self.d[name] = round(now - self.t, 1)
        self.t = now
        self.ctx.note("stage_seconds", self.d)
        if os.environ.get("VERIF_TIMING"):
            print(f"  [stage {name}: {self.d[name]}s]", flush=True)


# ------------------------------------------------------------------------- the check
def run(ctx: Ctx) -> None:
    ctx.assume("indentation is made of spaces; bytes inside a line come from the generator's pools",
               "staging uses local paths (the cp / cp -r forms of shell_copy)",
               "inputs are lists / tuples of staging objects (dict keys are leaves of iter_nested_value)",
               "the shell is POSIX sh (dash) or bash; the command file prints itself (shebang /bin/cat, or a "
               "first line `cat \"$0\"`), so stdout = executed text")
    cc = CmdChecker(ctx)
    io = IoLab(ctx)
    dsh_len = len(cc.dsh_lines)
    rng = ctx.rng
    st = Stages(ctx)

    # ---- 1. model checking + enumeration (one TLC run) ---------------------------------------
    cfg = gen_cfg("all", 4, not ctx.quick, dsh_len)
    g = expect_clean(run_tlc("seq/Script_Gen.tla", cfg, ctx.scratch, workers=ctx.pick(8, "auto"), env=JVM_LONG,
                             timeout=2400, heap="8g"),
                     "Script_Gen (laws of Script.tla on the bounded universe)")
    ctx.add_tlc(g)
    ctx.note("model_config", "commands of 1..4 lines over the %s line alphabet; input / output structures of "
             "depth <= 2 over the %s leaf set" % (("rich", "rich") if not ctx.quick else ("small", "small")))
    # (TLC's workers print in any order: sort, so that the seeded choices below are reproducible)
    canon = lambda recs: sorted(recs, key=lambda r: json.dumps(r, sort_keys=True))  # noqa
    cmd_cases, io_cases = canon(g.recs("CASE")), canon(g.recs("IOCASE"))
    ctx.require(len(cmd_cases) >= 7000 and len(io_cases) >= 1500,
                f"too few cases from TLC: {len(cmd_cases)} commands, {len(io_cases)} structures")

    st.done("tlc_enumeration")
    # ---- 2. spec -> code: every enumerated command through the real functions -----------------
    sh = ShLab(ctx)
    n_sh = ctx.pick(15, 150)
    sh_idx = set(rng.sample(range(len(cmd_cases)), min(n_sh, len(cmd_cases))))
    sh_runs = sh_printed = 0
    trace_batch: list = []
    n_model_to_trace = ctx.pick(100, 1500)
    tr_idx = set(rng.sample(range(len(cmd_cases)), min(n_model_to_trace, len(cmd_cases))))
    for i, c in enumerate(cmd_cases):
        exec_it = i in sh_idx
        contents = pick_contents(rng, cc.dsh_lines, shebang="#!/bin/cat" if exec_it else None)
        text, prep, wrapped, rwrapped = cc.check_model_case(c, contents, "tlc-exhaustive")
        if prep is None:
            continue
        if exec_it:
            for shell, wtext, body in ((rng.choice(sh.shells), wrapped, prep), ("sh", rwrapped, text)):
                kept, out, _rc = sh.run(shell, wtext)
                sh_runs += 1
                ctx.count_impl_trace()
                if kept != (body + "\n").encode():
                    _viol(ctx, f"{shell} wrote {kept!r} to the temp file, the command is {body!r} (+ newline)",
                                  {"kind": "cmd", "text": text, "prefix": "EOF", "source": "sh"})
                elif body.split("\n")[0] == "#!/bin/cat":
                    sh_printed += 1
                    if out != kept:
                        _viol(ctx, f"{shell} executed {out!r}, the command is {body!r}",
                                      {"kind": "cmd", "text": text, "prefix": "EOF", "source": "sh"})
        if i in tr_idx:
            trace_batch.append(cc.record(text, "EOF"))
    mid = cmd_cases[len(cmd_cases) // 3]
    ctx.sample({"source": "tlc-exhaustive command", "text": render(mid["cmd"], "EOF", pick_contents(rng, cc.dsh_lines)),
                "model (lines as [indent, kind, n, special, trailing])": json.dumps(mid)})

    st.done("commands_on_real_functions")
    # ---- 3. spec -> code: every enumerated structure through script() / postprocess_script -----
    drift = 0
    for c in io_cases:
        rep = {"kind": "io", "ins": c["ins"], "outs": c["outs"], "td": c["td"]}
        try:
            _w, _expr, segs, res = io.assemble(c["ins"], c["outs"], bool(c["td"]))
        except MachineryError:
            raise
        except Exception as e:  # noqa
            _viol(ctx, f"script() raised {type(e).__name__}: {e}", rep)
            continue
        ctx.count_eval()
        ctx.count_impl_trace()
        if res != c["res"]:
            _viol(ctx, f"result shape {json.dumps(res)} differs from Script.tla {json.dumps(c['res'])} "
                          f"for outputs {json.dumps(c['outs'])}", rep)
        if segs != c["segs"]:
            # the order among inputs / among outputs is as-built detail; the contract is judged by TLC
            drift += 1
            trace_batch.append({"kind": "io", "ins": c["ins"], "outs": c["outs"], "td": c["td"], "segs": segs,
                                "res": res})
        if any(n["t"] // 100 in (K_STDOUT, K_STAGE, K_SDIR, K_FILE) for n in iter_leaves(c["outs"])):
            ctx.distinct(("io", c["ins"], c["outs"], c["td"]))
    ctx.sample({"source": "tlc-exhaustive structure (leaf id = kind*100 + local*10 + remote)",
                "case": json.dumps(io_cases[len(io_cases) // 2])})

    st.done("structures_on_real_script")
    # ---- 4. code -> spec: larger generated texts and structures --------------------------------
    n_gen = ctx.pick(300, 4000)
    for _ in range(n_gen):
        prefix = rng.choice(["EOF"] * 6 + ["END", "X_", "EOF1"])
        text = gen_text(rng, prefix)
        try:
            rec = cc.record(text, prefix)
        except Exception as e:  # noqa
            _viol(ctx, f"scripting functions raised {type(e).__name__}: {e} on {text!r}",
                          {"kind": "cmd", "text": text, "prefix": prefix, "source": "generated"})
            continue
        a = Abs(prefix)
        bad = cc.heredoc_law(a, rec["_prep"], rec["_eof"], rec["_wrapped"])
        if bad:
            _viol(ctx, f"get_wrapped_command({rec['_prep']!r}, eof_prefix={prefix!r}): {bad}",
                          {"kind": "cmd", "text": text, "prefix": prefix, "source": "generated"})
        trace_batch.append(rec)
    first_gen_io = len(trace_batch)
    for _ in range(ctx.pick(200, 2000)):
        # one role per path: remote 2 is a staged file, a file used in place, or a staged directory;
        # local 6 / remote 8 a file or a directory; remote 7 copied from local 5 or written in place
        in_ids = [lid(K_STAGE, 3, 1), rng.choice([lid(K_STAGE, 4, 2), lid(K_STAGE, 2, 2), lid(K_SDIR, 4, 2)])]
        out_ids = [lid(K_STDOUT, 0, 0), rng.choice([lid(K_STAGE, 5, 7), lid(K_STAGE, 7, 7)]),
                   rng.choice([lid(K_STAGE, 6, 8), lid(K_SDIR, 6, 8)]), lid(K_FILE, 0, 9),
                   lid(K_PLAIN, 0, 1), lid(K_PLAIN, 0, 2)]
        ins = {"k": rng.choice(["list", "tuple"]), "t": 0, "y": [],
               "x": [gen_structure(rng, in_ids, 1) if rng.random() < 0.3 else leaf(rng.choice(in_ids))
                     for _ in range(rng.randint(0, 4))]}
        ins = _no_dict(ins)
        outs = gen_structure(rng, out_ids, 3)
        td = rng.random() < 0.2
        try:
            _w, _e, segs, res = io.assemble(ins, outs, td)
        except MachineryError:
            raise
        except Exception as e:  # noqa
            _viol(ctx, f"script() raised {type(e).__name__}: {e}", {"kind": "io", "ins": ins, "outs": outs, "td": td})
            continue
        trace_batch.append({"kind": "io", "ins": ins, "outs": outs, "td": 1 if td else 0, "segs": segs, "res": res})

    st.done("generated_cases_recorded")
    # ---- 5. real sh on generated texts, real Scheduler on script() ----------------------------
    gen_cmds = [c for c in trace_batch if c["kind"] == "cmd" and c.get("_text") is not None and c["_prefix"] == "EOF"]
    for c in rng.sample(gen_cmds, min(ctx.pick(15, 100), len(gen_cmds))):
        text = "#!/bin/cat\n" + c["_text"].lstrip("\n ")      # printed, never interpreted
        prep, eof, wrapped, _r, _rw = cc.real(text, "EOF")
        shell = rng.choice(sh.shells)
        kept, out, _rc = sh.run(shell, wrapped)
        sh_runs += 1
        sh_printed += 1
        ctx.count_impl_trace()
        if kept != (prep + "\n").encode() or out != kept:
            _viol(ctx, f"{shell} wrote {kept!r} / executed {out!r}, the command is {prep!r} (+ newline)",
                          {"kind": "cmd", "text": text, "prefix": "EOF", "source": "sh-generated"})
    # whitespace the line abstraction does not carry (Script.tla counts spaces): leading tabs, a tab-indented
    # terminator of the command's own <<- here-document, carriage returns, trailing tabs -- byte for byte
    # through the real functions and a real shell
    TABBED = ["#!/bin/cat\necho a\n\techo tabbed\nif true; then\n\t\t: two tabs\nfi",
              "#!/bin/cat\ncat <<-EOF\n\thello\n\tEOF\necho after",
              "#!/bin/cat\necho 'x\ty'\t\n\tEOF1\n \tEOF",
              "#!/bin/cat\nprintf 'a\\r\\n'\n\t"]
    for text in TABBED:
        for prefix_lines in ("", "EOF\n"):
            t = text.replace("#!/bin/cat\n", "#!/bin/cat\n" + prefix_lines, 1)
            prep, eof, wrapped, _r, _rw = cc.real(t, "EOF")
            bad = cc.heredoc_law(cc.abs_eof, prep, eof, wrapped)
            if bad:
                _viol(ctx, f"get_wrapped_command({prep!r}): {bad}", {"kind": "cmd", "text": t, "prefix": "EOF", "source": "tabbed"})
            for shell in sh.shells:
                kept, out, _rc = sh.run(shell, wrapped)
                sh_runs += 1
                sh_printed += 1
                ctx.count_impl_trace()
                if kept != (prep + "\n").encode() or out != kept:
                    _viol(ctx, f"{shell} wrote {kept!r} / executed {out!r}, the command is {prep!r} (+ newline)",
                          {"kind": "cmd", "text": t, "prefix": "EOF", "source": "sh-tabbed"})
    ctx.note("sh_runs", {"wrappers_executed": sh_runs, "printed_by_the_command_itself": sh_printed,
                         "shells": sh.shells})

    s31, s42, s22, d42 = lid(K_STAGE, 3, 1), lid(K_STAGE, 4, 2), lid(K_STAGE, 2, 2), lid(K_SDIR, 4, 2)
    e2e_in_sets = [[], [s31], [s42], [s31, s42], [s42, s31], [s31, s22], [d42], [s31, d42]]
    e2e_leaf_out = [lid(K_STDOUT, 0, 0), lid(K_STAGE, 5, 7), lid(K_STAGE, 6, 8), lid(K_FILE, 0, 9), lid(K_PLAIN, 0, 1),
                    lid(K_SDIR, 6, 8)]
    n_e2e = ctx.pick(6, 80)
    e2e_done = 0
    for k in range(n_e2e):
        ins = {"k": "list", "t": 0, "y": [], "x": [leaf(i) for i in rng.choice(e2e_in_sets)]}
        outs = gen_structure(rng, e2e_leaf_out, 2)
        # one writer per path: drop duplicates of a local path by rebuilding until unique (bounded)
        for _try in range(20):
            locs = [(n["t"] % 100) // 10 if n["t"] // 100 != K_FILE else n["t"] % 10
                    for n in iter_leaves(outs) if n["t"] // 100 in (K_STAGE, K_SDIR, K_FILE)]
            if len(locs) == len(set(locs)):
                break
            outs = gen_structure(rng, e2e_leaf_out, 2)
        else:
            outs = leaf(lid(K_STDOUT, 0, 0))
        td = rng.random() < 0.25
        base = rng.choice(gen_cmds)["_text"].split("\n") if gen_cmds else ["EOF"]
        lines = [l for l in base][: rng.randint(0, 12)]
        mode = rng.choice(["interp", "bash"])
        rec = io.run_e2e(ins, outs, td, lines, mode, "e2e")
        if rec:
            e2e_done += 1
            # the same call once more without running, to record its parts for TLC
            try:
                _w, _e, segs, _res = io.assemble(ins, outs, td, command=rec["_command"])
                rec["segs"] = segs
            except MachineryError:
                raise
            trace_batch.append(rec)
            trace_batch.append(cc.record(rec["_command"], "EOF"))
    ctx.note("scheduler_runs", e2e_done)
    ctx.require(e2e_done > 0 or ctx.violations, "no script() run completed on the real Scheduler")

    st.done("sh_and_scheduler_runs")
    # ---- 6. negative controls + TLC validation of everything recorded --------------------------
    controls = {}
    src = next(c for c in trace_batch if c["kind"] == "cmd" and L(0, "eof", 0, 0, 0) in c["prep"])
    bad = copy.deepcopy(src)
    bad["eof"] = 0                                   # claims the bare prefix although it is a line
    for ln in bad["wrap"]:
        if ln["tok"] == "open":
            ln["n"] = 0
            break
    trace_batch.append(bad)
    controls["terminator"] = len(trace_batch)
    src = next(c for c in trace_batch if c["kind"] == "cmd" and len(c["prep"]) >= 3)
    bad = copy.deepcopy(src)
    o = next(i for i, ln in enumerate(bad["wrap"]) if ln["tok"] == "open")
    del bad["wrap"][o + 2]                           # one body line lost
    trace_batch.append(bad)
    controls["body"] = len(trace_batch)
    src = next(c for c in trace_batch if c["kind"] == "io" and c["segs"]
               and [s["k"] for s in c["segs"]].count("unstage") == 1)
    bad = copy.deepcopy(src)
    j = next(i for i, s in enumerate(bad["segs"]) if s["k"] == "unstage")
    bad["segs"].insert(0, bad["segs"].pop(j))        # unstaged before the command ran
    trace_batch.append(bad)
    controls["order"] = len(trace_batch)
    src = next(c for c in trace_batch if c["kind"] == "io"
               and any(n["t"] == lid(K_BYTES, 0, 0) for n in iter_leaves(c["res"])))
    bad = copy.deepcopy(src)
    next(n for n in iter_leaves(bad["res"]) if n["t"] == lid(K_BYTES, 0, 0))["t"] = lid(K_STDOUT, 0, 0)
    trace_batch.append(bad)
    controls["shape"] = len(trace_batch)

    v, iv = validate(ctx, trace_batch, "all")
    ctx.negative_control(v[controls["terminator"]][1] == 0,
                         "a recorded terminator that equals a command line must be rejected by TLC")
    ctx.negative_control(v[controls["body"]][2] == 0, "a wrapper that lost a body line must be rejected by TLC")
    ctx.negative_control(iv[controls["order"]][0] == 0 and iv[controls["order"]][1] == 0,
                         "an unstage part moved before the command must be rejected by TLC")
    ctx.negative_control(iv[controls["shape"]][2] == 0,
                         "a result that kept File('-') instead of the stdout must be rejected by TLC")
    drift += judge(ctx, trace_batch, v, iv, skip=set(controls.values()))
    ctx.note("asbuilt_drift", drift)
    ctx.note("case_stats", dict(cc.stats, io_cases=len(io_cases), recorded_cases=len(trace_batch) - len(controls),
                                first_generated_structure=first_gen_io))
    gsample = next(c for c in trace_batch if c["kind"] == "cmd" and c["eof"] >= 2)
    ctx.sample({"source": "generated text", "text": gsample["_text"], "prefix": gsample["_prefix"],
                "terminator": gsample["_eof"]})
    gsample = next((c for c in trace_batch if c["kind"] == "io" and c.get("_rep")), None)
    if gsample:
        ctx.sample({"source": "script() on a Scheduler", "command": gsample["_command"][:300],
                    "ins": json.dumps(gsample["ins"]), "outs": json.dumps(gsample["outs"]),
                    "result": json.dumps(gsample["res"])})

    st.done("tlc_trace_validation")
    # ---- 7. model-level controls: each law fails for the mutated model -------------------------
    ctl = []
    if not ctx.quick:
        ctl += [("eof_fixed", "TerminatorOK", "cmd"), ("no_dedent", "PrepareOK", "cmd"), ("unquoted", "HeredocOK", "cmd"),
                ("unstage_first", "StagingOK", "io"), ("stdout_kept", "ShapeOK", "io")]
    for variant, inv, mode in ctl:
        r = run_tlc("seq/Script_Gen.tla", gen_cfg(mode, 2, True, dsh_len, variant=variant, emit=False, invs=(inv,)),
                    ctx.scratch, workers=2, env=JVM_SHORT, timeout=600)
        expect_violation(r, inv, f"Script.tla variant {variant}")
        ctx.add_tlc(r)
    if not ctx.quick:
        # termination of the get_command_eof loop as a liveness property (weak fairness on the step)
        r = expect_clean(run_tlc("seq/Script_Gen.tla",
                                 gen_cfg("cmd", 3, False, dsh_len, emit=False, invs=("EofLoopBound",), spec="GFair",
                                         props=("Terminates",)), ctx.scratch, workers=4, env=JVM_LONG, timeout=1200),
                         "Script_Gen liveness (the loop terminates)")
        ctx.add_tlc(r)
    st.done("tlc_model_controls_and_deeper_runs")


def _no_dict(node):
    if node["k"] == "dict":
        return {"k": "list", "t": 0, "x": [_no_dict(c) for c in node["y"]], "y": []}
    if node["k"] == "leaf":
        return node
    return {"k": node["k"], "t": 0, "x": [_no_dict(c) for c in node["x"]], "y": []}


def replay(ctx: Ctx, rec: dict) -> None:
    r = rec["replay"]
    cc = CmdChecker(ctx)
    if r.get("kind") == "cmd":
        c = cc.record(r["text"], r.get("prefix", "EOF"))
        a = Abs(c["_prefix"])
        bad = cc.heredoc_law(a, c["_prep"], c["_eof"], c["_wrapped"])
        if bad:
            _viol(ctx, f"get_wrapped_command({c['_prep']!r}): {bad}", r)
        v, iv = validate(ctx, [c], "replay")
        judge(ctx, [c], v, iv)
    elif r.get("kind") == "io":
        io = IoLab(ctx)
        _w, _e, segs, res = io.assemble(r["ins"], r["outs"], bool(r["td"]))
        c = {"kind": "io", "ins": r["ins"], "outs": r["outs"], "td": 1 if r["td"] else 0, "segs": segs, "res": res}
        v, iv = validate(ctx, [c], "replay")
        judge(ctx, [c], v, iv)
    elif r.get("kind") == "e2e":
        io = IoLab(ctx)
        io.run_e2e(r["ins"], r["outs"], r["td"], r["lines"], r["mode"], "replay")
    else:
        run(ctx)
