"""
C33  Status filters agree with displayed statuses.

Spec: spec/seq/StatusFilter.tla -- Display (Job.calc_status / Execution status) and Selected (the
WHERE clause of CallGraphQuery.filter_job_statuses / filter_execution_statuses under SQL's
three-valued logic) over job-row shapes (end time?, cached, result kind), plus the small machine
that says which shapes record_job_start / record_job_end ever write.  Law: returned by the filter
for status list S  <=>  displayed status in S.  TLC: the law is an invariant of the recording
machine with the deviation CachedFlagOnFailedJob off and is violated exactly at the shape
(ended, cached, error) with it on.

Binding
  spec -> code  StatusFilter_Gen prints the decision table (12 job shapes, 13 execution shapes:
                expected display and membership for 10 / 6 status lists).  A scenario database is
                written by REAL runs of the scheduler under the controlled loop (done, cached,
                failed, failed-after-cached-reduction, collapsed-into-failing-twin, cut mid-way =
                running); shapes the recorder never writes are produced by row surgery on a copy.
                Every row is displayed (Job.status, Execution.status, and the `status` field of
                get_records) and queried (CallGraphQuery methods, and the --job-status /
                --exec-status argparse route for lists) and compared with the table.
  code -> spec  databases written by seeded random workflows (failing subtrees, catch, repeated
                subtrees = CSE twins, re-runs, cuts) are dumped row by row (shape, displayed
                status, membership per status list) and validated by TLC (StatusFilter_Trace):
                recorded shape?, equals the as-built transcription?, law?, explained by the named
                deviation?
Verdicts: a VIOLATION is a law failure on a row the real recorder wrote; keyed when TLC attributes
it to the deviation.  Differences from the transcription that keep the law (e.g. a repaired filter
term) and anything on surgery rows are reported as drift, never as violations.
"""

from __future__ import annotations

import argparse
import copy
import json
import shutil
import sqlite3
from pathlib import Path

from ..core import Ctx
from ..tlc import expect_clean, expect_violation, run_tlc

META = {
    "level": "model_checking",
    "level_text": "TLC checks, for every job/execution row shape the recording machine can write "
                  "and every non-empty status list, that the transcribed SQL filter returns the row "
                  "iff the transcribed displayed status is in the list (violated only through the "
                  "named deviation); the transcription is bound to redun by comparing the decision "
                  "table with real Job.status / CallGraphQuery results on databases written by real "
                  "scheduler runs, and by TLC validating every row of seeded random databases.",
    "level_note": "Row shapes abstract a job to (end time?, cached, result kind); SQLite only; "
                  "status lists of length 1 and 2 are queried on the code side (the model checks "
                  "all 15); the recording machine is a transcription of the call sites of "
                  "record_job_start/record_job_end, kept in step by the code->spec run (a row of an "
                  "unmodelled shape is reported).",
    "technique": "explicit TLA+ spec + TLC (invariants over the recording machine, decision table "
                 "emitted for spec->code comparison, batched row validation code->spec)",
    "rule": "a case is one executed workflow (spec tree, schedule seed, cut point) in a generated "
            "database; distinct = distinct (tree, cut); non-trivial = its execution recorded at "
            "least one job row that is running, cached or failed",
}

DEV = "CachedFlagOnFailedJob"
KEY_JOB = "cached-flag-on-failed-job"
KEY_EXEC = "cached-flag-on-failed-root-exec"
ERR = "redun.ErrorValue"
JOB_STATUSES = ["RUNNING", "CACHED", "FAILED", "DONE"]
EXEC_STATUSES = ["RUNNING", "FAILED", "DONE"]


def _lists(statuses):
    out = [[s] for s in statuses]
    out += [[a, b] for i, a in enumerate(statuses) for b in statuses[i + 1:]]
    return out


# ------------------------------------------------------------------------------------------------
# observation of a database through the library
# ------------------------------------------------------------------------------------------------
def _cli_query(session, kind: str, statuses: list):
    """The `redun log --job-status/--exec-status A,B` route: argparse + parse_callgraph_query."""
    from redun.backends.db.query import CallGraphQuery, parse_callgraph_query, setup_query_parser

    parser = setup_query_parser(argparse.ArgumentParser())
    flag = "--job-status" if kind == "job" else "--exec-status"
    args = parser.parse_args([flag, ",".join(statuses)])
    return parse_callgraph_query(CallGraphQuery(session), args)


def observe_db(db_path: Path) -> list[dict]:
    """All job and execution rows of the database: shape, displayed status (two routes for jobs),
    membership in every status list of length <= 2."""
    from redun.backends.db import Execution, Job
    from redun.backends.db.query import CallGraphQuery

    from .. import simloop

    be = simloop.open_backend(db_path)
    try:
        sess = be.session
        sess.expire_all()
        raw = sqlite3.connect(str(db_path))
        shapes = {}
        for jid, endt, cached, call_hash, parent, vtype in raw.execute(
                "select j.id, j.end_time, j.cached, j.call_hash, j.parent_id, v.type from job j "
                "left join call_node c on c.call_hash = j.call_hash "
                "left join value v on v.value_hash = c.value_hash"):
            shapes[jid] = {"end": int(endt is not None), "cached": int(bool(cached)),
                           "res": "none" if call_hash is None or vtype is None
                           else ("error" if vtype == ERR else "value"),
                           "root": int(parent is None)}
        execs = list(raw.execute("select e.id, e.job_id, j.start_time from execution e "
                                 "left join job j on j.id = e.job_id order by j.start_time, e.id"))
        job_order = [r[0] for r in raw.execute("select id from job order by start_time, id")]
        raw.close()

        jmem, emem = {}, {}
        for S in _lists(JOB_STATUSES):
            q = (CallGraphQuery(sess).filter_job_statuses(S) if len(S) == 1
                 else _cli_query(sess, "job", S))
            jmem[tuple(S)] = {r.id for r in q.all() if isinstance(r, Job)}
        for S in _lists(EXEC_STATUSES):
            q = (CallGraphQuery(sess).filter_execution_statuses(S) if len(S) == 1
                 else _cli_query(sess, "exec", S))
            emem[tuple(S)] = {r.id for r in q.all() if isinstance(r, Execution)}

        rec_status = {r["id"]: r.get("status") for r in be.get_records(job_order, sorted=False)
                      if r.get("_type") == "Job"}
        rows = []
        jobs = {j.id: j for j in sess.query(Job).all()}
        for jid in job_order:
            sh = shapes[jid]
            base = {"kind": "job", "hasjob": 1, **sh,
                    "filters": [{"S": list(S), "sel": int(jid in jmem[S])} for S in jmem]}
            rows.append({**base, "route": "Job.status", "display": jobs[jid].status})
            rows.append({**base, "route": "get_records", "display": rec_status.get(jid, "?")})
        exs = {e.id: e for e in sess.query(Execution).all()}
        for eid, job_id, _ in execs:
            sh = shapes.get(job_id)
            hasjob = int(sh is not None)
            sh = sh or {"end": 0, "cached": 0, "res": "none", "root": 1}
            rows.append({"kind": "exec", "hasjob": hasjob, **sh, "route": "Execution.status",
                         "display": exs[eid].status,
                         "filters": [{"S": list(S), "sel": int(eid in emem[S])} for S in emem]})
        return rows
    finally:
        simloop.close_backend(be)


def shape_key(r: dict) -> tuple:
    return (r["kind"], r.get("hasjob", 1), r["end"], r["cached"], r["res"])


# ------------------------------------------------------------------------------------------------
# building databases with the real scheduler
# ------------------------------------------------------------------------------------------------
def build_db(ctx: Ctx, name: str, plan: list[dict]) -> Path:
    """plan: [{spec, seed, abort}] executed in order on one fresh repository."""
    from .. import dbgen

    p = dbgen.new_repo(ctx.scratch, name)
    build_steps(ctx, p, plan)
    return p


def build_steps(ctx: Ctx, p: Path, plan: list[dict]) -> Path:
    import random

    from .. import dbgen

    for step in plan:
        rng = random.Random(step["seed"]) if step.get("seed") is not None else None
        out = dbgen.run_spec(p, step["spec"], rng, abort_after=step.get("abort"))
        step["outcome"] = out.get("etype") or out["outcome"]
        ctx.require(out["outcome"] != "hang", f"controlled run hung on {step['spec']}")
    return p


SCENARIO = [
    # done, then cached (same tree again)
    {"spec": ["inc", ["add", ["lit", 1], ["lit", 2]]], "seed": None},
    {"spec": ["inc", ["add", ["lit", 1], ["lit", 2]]], "seed": None},
    # failed, then the same failing tree again: reductions cached, failure repeats
    {"spec": ["inc", ["inc", ["boom", 1]]], "seed": None},
    {"spec": ["inc", ["inc", ["boom", 1]]], "seed": None},
    # the DESIGN witness: the same failing call under two different parents, both caught
    {"spec": ["pack", ["catch", ["boom", 2]], ["catch", ["inc", ["boom", 2]]]], "seed": None},
    {"spec": ["add", ["catch", ["add", ["boom", 2], ["lit", 1]]], ["catch", ["inc", ["boom", 2]]]], "seed": 3},
    # cut mid-way: jobs started and never ended
    {"spec": ["add", ["inc", ["lit", 5]], ["inc", ["inc", ["lit", 6]]]], "seed": 1, "abort": 6},
    {"spec": ["pack", ["lit", 7], ["inc", ["lit", 8]]], "seed": 2, "abort": 1},
    # plain executions: donors for the row surgery
    {"spec": ["lit", 1], "seed": None}, {"spec": ["lit", 2], "seed": None},
    {"spec": ["lit", 3], "seed": None}, {"spec": ["inc", ["lit", 3]], "seed": None},
]


def surgery(ctx: Ctx, src: Path, want: list[tuple]) -> tuple[Path, dict]:
    """Rows of shapes the recorder never writes, made by editing a copy of the scenario database.
    `want`: shape keys (kind, hasjob, end, cached, res).  Returns (path, {row id: shape key})."""
    p = ctx.tmp("surgery.db")
    shutil.copyfile(src, p)
    c = sqlite3.connect(str(p))
    c.execute("pragma foreign_keys=off")
    err_call = c.execute("select c.call_hash from call_node c join value v on v.value_hash = c.value_hash "
                         "where v.type = ?", (ERR,)).fetchone()
    val_call = c.execute("select c.call_hash from call_node c join value v on v.value_hash = c.value_hash "
                         "where v.type != ?", (ERR,)).fetchone()
    ctx.require(bool(err_call and val_call), "scenario database lacks a value / error call node")
    # donors: ended, uncached, value jobs; children for job shapes, roots for execution shapes
    kids = [r[0] for r in c.execute(
        "select j.id from job j join call_node c on c.call_hash = j.call_hash join value v on "
        "v.value_hash = c.value_hash where j.parent_id is not null and j.end_time is not null and "
        "j.cached = 0 and v.type != ? order by j.start_time, j.id", (ERR,))]
    roots = [r for r in c.execute(
        "select j.id, e.id from job j join execution e on e.job_id = j.id order by j.start_time, j.id")]
    made = {}
    for key in want:
        kind, hasjob, end, cached, res = key
        if kind == "exec" and not hasjob:
            jid, eid = roots.pop()
            c.execute("update execution set job_id = 'no-such-job' where id = ?", (eid,))
            made[eid] = key
            continue
        if kind == "job":
            ctx.require(bool(kids), "not enough donor jobs for surgery")
            jid = kids.pop()
            rid = jid
        else:
            ctx.require(bool(roots), "not enough donor root jobs for surgery")
            jid, rid = roots.pop()
        call = None if res == "none" else (err_call[0] if res == "error" else val_call[0])
        c.execute("update job set cached = ?, call_hash = ?, end_time = case when ? then start_time else null end "
                  "where id = ?", (cached, call, end, jid))
        made[rid] = key
    c.commit()
    c.close()
    return p, made


# ------------------------------------------------------------------------------------------------
# TLC
# ------------------------------------------------------------------------------------------------
def cfg_machine(dev: bool, invs: list[str]) -> str:
    return ("SPECIFICATION Spec\nCONSTANT Deviations = " + ('{"%s"}' % DEV if dev else "{}") + "\n"
            + "".join(f"INVARIANT {i}\n" for i in invs) + "CHECK_DEADLOCK FALSE\n")


def validate_rows(ctx: Ctx, rows: list[dict], what: str) -> dict[int, tuple]:
    f = ctx.tmp(f"rows_{what}.json")
    slim = [{k: r[k] for k in ("kind", "hasjob", "end", "cached", "res", "root", "display", "filters")}
            for r in rows]
    f.write_text(json.dumps(slim))
    cfg = f'SPECIFICATION TSpec\nCONSTANT Deviations = {{"{DEV}"}}\nCHECK_DEADLOCK FALSE\n'
    res = run_tlc("seq/StatusFilter_Trace.tla", cfg, ctx.scratch, workers=1,
                  env={"TRACE_FILE": str(f)}, deadlock=False, timeout=600)
    ctx.require(res.error is None and not res.violated,
                f"TLC failed on row validation ({what}): {res.error} {res.violated}\n{res.out[-1500:]}")
    ctx.add_tlc(res)
    v = {i: (bool(rec), bool(asb), bool(law), bool(dev)) for i, rec, asb, law, dev in res.recs("VERDICT")}
    ctx.require(len(v) == len(rows), f"verdicts {len(v)} != rows {len(rows)} ({what})")
    return v


def judge(ctx: Ctx, rows: list[dict], verdicts: dict, origin: dict, stats: dict) -> None:
    """Turn TLC's per-row verdicts into violations / drift counts.  origin: replayable description."""
    for i, r in enumerate(rows, 1):
        rec, asb, law, dev = verdicts[i]
        ctx.count_impl_trace()
        ctx.count_eval(len(r["filters"]))
        stats["rows"] += 1
        if not rec:
            stats["unmodelled_shape"] += 1
        if not asb:
            stats["asbuilt_drift"] += 1
        if law:
            continue
        bad = [f["S"] for f in r["filters"] if bool(f["sel"]) != (r["display"] in f["S"])]
        what = (f"{r['kind']} row (end_time {'set' if r['end'] else 'NULL'}, cached={bool(r['cached'])}, "
                f"result {r['res']}{', root job' if r.get('root') and r['kind'] == 'job' else ''}) is displayed "
                f"{r['display']} ({r['route']}) but filter membership disagrees for status lists {bad}")
        key = None
        if dev:
            key = KEY_JOB if r["kind"] == "job" else KEY_EXEC
            stats["via_deviation"] += 1
        # one witness per failure class (deviation key, or shape x route x lists); counts in stats
        cls = key or json.dumps([shape_key(r), r.get("root"), r["route"], r["display"], bad])
        if cls in stats.setdefault("_reported", []):
            stats["law_failures_not_listed"] = stats.get("law_failures_not_listed", 0) + 1
            continue
        stats["_reported"].append(cls)
        ctx.violation(what, {"origin": origin, "row": {k: v for k, v in r.items()}}, key=key)


# ------------------------------------------------------------------------------------------------
def run(ctx: Ctx) -> None:
    from .. import dbgen

    ctx.assume("SQLite backend", "job rows are written only by record_job_start / record_job_end",
               "result kind = type of the Value the job's call node points to (ErrorValue or not)")
    dbgen.set_file_dir(ctx.scratch)
    stats = {"rows": 0, "asbuilt_drift": 0, "unmodelled_shape": 0, "via_deviation": 0,
             "table_mismatch_real": 0, "table_mismatch_surgery": 0}

    # ---- 1. model checking: the law is an invariant of the recording machine, deviation off ------
    invs = ["TypeOK", "ReachOK", "JobLaw", "ExecLaw", "OnlyDevShapeFails"]
    ctx.add_tlc(expect_clean(run_tlc("seq/StatusFilter.tla", cfg_machine(False, invs), ctx.scratch,
                                     workers=1, deadlock=False), "StatusFilter, deviation off"))

    # ---- 2. deviation on: both laws fail (model-level control), nowhere but at the deviation shape;
    #         the same run prints the decision table and the shapes the machine reaches ------------
    g = run_tlc("seq/StatusFilter_Gen.tla",
                cfg_machine(True, ["Emit", "TypeOK", "ReachOK", "OnlyDevShapeFails", "ExecLaw", "JobLaw"]),
                ctx.scratch, workers=1, deadlock=False, extra=["-continue"])
    ctx.require(g.error is None, f"StatusFilter_Gen failed: {g.error}\n{g.out[-1500:]}")
    ctx.require(set(g.violated) == {"JobLaw", "ExecLaw"},
                f"with the deviation on exactly JobLaw and ExecLaw must fail, got {g.violated}")
    ctx.add_tlc(g)
    table = {shape_key(e): e for e in g.recs("JOBSHAPE") + g.recs("EXECSHAPE")}
    ctx.require(len(g.recs("JOBSHAPE")) == 12 and len(g.recs("EXECSHAPE")) == 13, "decision table incomplete")
    reached = {(r["end"], r["cached"], r["res"], r["root"]) for r in g.recs("REACHED")}
    declared = {(e["end"], e["cached"], e["res"], root) for e in g.recs("JOBSHAPE")
                for root, f in ((1, "rec_root"), (0, "rec_child")) if e[f]}
    ctx.require(reached == declared, f"RecordedShapes differs from the machine: {reached ^ declared}")
    recorded_keys = {k for k, e in table.items() if e["rec_root"] or e["rec_child"]}
    ctx.note("table", {"job_shapes": 12, "exec_shapes": 13, "recorded": len(recorded_keys),
                       "law_fails_on": sorted(str(k) for k, e in table.items() if not e["law"])})

    # ---- 3. spec -> code: scenario database + surgery, compared with the table ------------------
    plan = copy.deepcopy(SCENARIO)
    scen = build_db(ctx, "scenario.db", plan)
    rows = observe_db(scen)
    have = {shape_key(r) for r in rows}
    for extra_seed in range(20):  # the collapse needs the twin still pending: try more schedules
        if recorded_keys <= have:
            break
        step = {"spec": SCENARIO[5]["spec"], "seed": 100 + extra_seed}
        plan.append(step)
        build_steps(ctx, scen, [step])
        rows = observe_db(scen)
        have = {shape_key(r) for r in rows}
    ctx.require(recorded_keys <= have, f"real runs did not produce recorded shapes {recorded_keys - have}")
    unrecorded = sorted(set(table) - recorded_keys)
    surg, made = surgery(ctx, scen, unrecorded)
    srows = [r for r in observe_db(surg) if shape_key(r) in set(unrecorded)]
    ctx.require({shape_key(r) for r in srows} == set(unrecorded),
                f"surgery did not produce {set(unrecorded) - {shape_key(r) for r in srows}}")

    def compare(rs, field):
        for r in rs:
            e = table[shape_key(r)]
            exp = {tuple(f["S"]): f["sel"] for f in e["filters"]}
            same = r["display"] == e["display"] and all(exp[tuple(f["S"])] == f["sel"] for f in r["filters"])
            ctx.count_eval(1 + len(r["filters"]))
            if not same:
                stats[field] += 1

    compare(rows, "table_mismatch_real")
    compare(srows, "table_mismatch_surgery")
    scen_origin = {"plan": [{k: s.get(k) for k in ("spec", "seed", "abort")} for s in plan]}
    ctx.sample({"scenario_plan": [f"{json.dumps(s['spec'])} seed={s.get('seed')} cut={s.get('abort')} -> "
                                  f"{s.get('outcome')}" for s in plan[:8]], "rows_observed": len(rows)})
    devrow = next((r for r in rows if shape_key(r) == ("job", 1, 1, 1, "error")), None)
    if devrow:
        ctx.sample({"row": {k: devrow[k] for k in ("kind", "end", "cached", "res", "root", "display", "route")},
                    "returned_by": [f["S"] for f in devrow["filters"] if f["sel"]]})
    for s in plan:
        ctx.distinct([s["spec"], s.get("abort")])

    # negative control rows: a real DONE row, and the same row re-labelled CACHED
    ok_row = next(r for r in rows if r["display"] == "DONE" and shape_key(r) == ("job", 1, 1, 0, "value"))
    bad = copy.deepcopy(ok_row)
    bad["display"] = "CACHED"

    # ---- 4. code -> spec: random databases --------------------------------------------------
    ndb = ctx.pick(5, 40)
    nexec = ctx.pick(10, 24)
    depth = ctx.pick(3, 4)
    rrows, origins = [], []
    for d in range(ndb):
        plan_r = []
        for _ in range(nexec):
            if plan_r and ctx.rng.random() < 0.3:
                spec = ctx.rng.choice(plan_r)["spec"]  # re-run: cached reductions
            else:
                spec = dbgen.gen_spec(ctx.rng, ctx.rng.randint(1, depth), p_boom=0.22)
            plan_r.append({"spec": spec, "seed": ctx.rng.randrange(10 ** 6),
                           "abort": ctx.rng.choice([None, None, None, 2, 5, 9, 14])})
        p = build_db(ctx, f"rand{d}.db", plan_r)
        rs = observe_db(p)
        o = {"plan": [{k: s.get(k) for k in ("spec", "seed", "abort")} for s in plan_r]}
        rrows += rs
        origins += [o] * len(rs)
        if any(r["kind"] == "job" and (not r["end"] or r["cached"] or r["res"] == "error") for r in rs):
            for s in plan_r:
                ctx.distinct([s["spec"], s.get("abort")])
        p.unlink(missing_ok=True)

    # ---- 5. one batched TLC validation of every observed row -------------------------------------
    batch = rows + srows + [ok_row, bad] + rrows
    v = validate_rows(ctx, batch, "all")
    n0, n1 = len(rows), len(rows) + len(srows)
    ctx.negative_control(v[n1 + 1][2] and not v[n1 + 2][2] and not v[n1 + 2][3],
                         "a DONE row re-labelled CACHED must fail the law and not be attributed to the deviation")
    judge(ctx, rows, {i: v[i] for i in range(1, n0 + 1)}, scen_origin, stats)
    # surgery rows: transcription check only (redun never writes these shapes)
    stats["surgery_rows"] = len(srows)
    stats["surgery_drift"] = sum(1 for i in range(n0 + 1, n1 + 1) if not v[i][1])
    seen_keys: dict = {}
    for k, r in enumerate(rrows):
        judge(ctx, [r], {1: v[n1 + 3 + k]}, origins[k], stats)
        seen_keys[shape_key(r)] = seen_keys.get(shape_key(r), 0) + 1
    ctx.note("random_shape_counts", {str(k): n for k, n in sorted(seen_keys.items(), key=str)})
    ctx.sample({"random_plan_head": [f"{json.dumps(s['spec'])} seed={s['seed']} cut={s['abort']}"
                                     for s in (origins[0]["plan"][:3] if origins else [])]})
    stats.pop("_reported", None)
    ctx.note("stats", stats)
    ctx.require(stats["rows"] > 100, "too few rows observed")


def replay(ctx: Ctx, rec: dict) -> None:
    from .. import dbgen

    dbgen.set_file_dir(ctx.scratch)
    plan = rec["replay"]["origin"]["plan"]
    p = build_db(ctx, "replay.db", copy.deepcopy(plan))
    rows = observe_db(p)
    v = validate_rows(ctx, rows, "replay")
    judge(ctx, rows, v, {"plan": plan}, {"rows": 0, "asbuilt_drift": 0, "unmodelled_shape": 0, "via_deviation": 0})
