"""
C22  Interrupted or retried recording never corrupts later runs.

Spec: spec/cache/Backend.tla -- the database backend at commit granularity (every backend
operation as a sequence of stage / autoflush / commit steps taken from the code, in-memory
effects separate, db_retry as "rollback + re-enter the innermost operation"), the scheduler's
lookup / recording order for a 3-job workload in two variants (chain; child declared prov=False,
inherited by the grandchild, so that record_call_node of the parent records the subtree tasks itself
-- nested record_value frames, any order of the task set -- before all CallSubtreeTask rows in one
commit), environment = one OperationalError at any flush or commit point, or process death
before / after any commit, then recovery runs with and without an edit (and edit + revert).  TLC: foreign-key closure, Run = Fresh after recovery, a retried run completes with the
fault-free record set; on the as-built model these fail only through five named deviations, on
the repaired model (five switches) they hold.
Binding (harness/dbfault.py, DESIGN 2.3c):
  spec -> code  every injection scenario of the model (quick: all fault points, crash-before at the first
                and last commit of every class, a seeded sample of crash-after points, one recovery tree
                per distinct abstract state left behind; thorough: all) is executed on the
                real backend (child process, file-based sqlite, os._exit / OperationalError from
                SQLAlchemy session events) followed by the recovery tree; every real idle state
                is looked up among the idle states the model allows for that history.
  code -> spec  every real run (its numbered flush/commit points with the tables written, its
                outcome and the projected tables before and after) is validated by TLC against
                Backend.tla (Backend_Trace), and TLC evaluates the property's predicates on the
                logged data.
"""

from __future__ import annotations

import copy
import json

from .. import cachelab as L
from .. import dbfault as F
from ..core import Ctx, MachineryError

META = {
    "level": "model_checking",
    "level_text": "TLC checks, on a commit-granularity model of the database backend and a 3-job "
                  "workload, that with one transient OperationalError at any flush/commit point or a "
                  "process death before/after any commit the tables stay foreign-key closed, recovery "
                  "runs (with and without an edit) return what an empty backend returns and a retried "
                  "run records exactly the fault-free rows -- up to five named as-built deviations, "
                  "each shown necessary and jointly sufficient by repair switches. Every scenario is "
                  "executed on the real backend (real process deaths, real db_retry) and every real "
                  "run is validated by TLC against the model, point by point and table by table.",
    "level_note": "Two fixed workloads (parent/child/grandchild chain with a shallow parent; the same with "
                  "the child declared prov=False, so that record_call_node(parent) records the subtree "
                  "tasks itself, in any iteration order of the task set, before it writes all "
                  "CallSubtreeTask rows in one commit), one injection "
                  "per history, sqlite; faults are raised before the commit takes effect (no "
                  "lost-acknowledgement faults), the controlled single-threaded event loop drives the "
                  "real Scheduler.",
    "technique": "explicit TLA+ spec + TLC exhaustive check; spec->code scenario replay with real "
                 "crash/fault injection; code->spec batched trace validation and predicate evaluation "
                 "by TLC",
    "rule": "a case is one (injection, recovery history) pair executed on the real backend; distinct "
            "= distinct pair; non-trivial = the injection fired (a crash or a fault really happened) "
            "or the history contains an edit",
}

FLAGS = ["fk", "fresh", "survives", "complete"]
KEYMAP = dict(L.DEV_KEY)
STRICT_PARTS = ["FKAlways", "RecoveryFresh", "RetrySurvives", "RetryComplete"]


def controls(entries: list[dict], traces: list[dict]) -> list[tuple]:
    """Corrupted copies of real records that TLC must reject; (trace, check, text)."""
    base = next(t for e, t in zip(entries, traces) if e["scn"] == 0 and len(e["hist"]) == 1)
    out = []
    t1 = copy.deepcopy(base)
    k = next(i for i, p in enumerate(t1["pts"]) if p["k"] == "commit" and p["op"] == "rcn")
    del t1["pts"][k]
    out.append((t1, lambda v: not v["acc"], "a recorded run with one commit of record_call_node dropped "
                                            "must be rejected by Backend_Trace"))
    t2 = copy.deepcopy(base)
    t2["post"]["Task"] = [x for x in t2["post"]["Task"] if x != "P1"]
    out.append((t2, lambda v: v["con"]["fk"] is False,
                "a post-state with the Task row of parent removed must fail foreign-key closure"))
    rec = next((t for e, t in zip(entries, traces)
                if e["scn"] == 0 and e["hist"] == [["run", 0], ["run", 2]]), None)
    if rec is not None:
        t3 = copy.deepcopy(rec)
        t3["out"][0] = "ok"
        t3["out"][1] = "r11" if rec["out"][1] != "r11" else "r22"
        out.append((t3, lambda v: v["con"]["fresh"] is False,
                    "a recovery run after editing child that reports the old value must fail Run = Fresh"))
    return out + variant_controls(entries, traces)


def variant_controls(entries: list[dict], traces: list[dict]) -> list[tuple]:
    """Controls on the second workload (child and grandchild without provenance)."""
    out = []
    nb = next((t for e, t in zip(entries, traces) if e.get("var") == 1 and e["scn"] == 1000 and len(e["hist"]) == 1),
              None)
    if nb is not None:
        t4 = copy.deepcopy(nb)
        ks = [i for i, p in enumerate(t4["pts"]) if p["k"] == "commit" and p["op"] == "rv" and p["tabs"] == ["Task"]]
        if ks:
            del t4["pts"][ks[-1]]
            out.append((t4, lambda v: not v["acc"],
                        "prov=False workload: a recording with the Task commit of one subtree task dropped must be "
                        "rejected by Backend_Trace"))
        t5 = copy.deepcopy(nb)
        t5["post"]["Sub"] = [x for x in t5["post"]["Sub"] if x[1] != "G1"]
        out.append((t5, lambda v: not v["acc"],
                    "prov=False workload: a recording whose parent node has a partial (non-empty) CallSubtreeTask "
                    "set must be rejected by Backend_Trace"))
    return out


def campaign(ctx: Ctx, with_import: bool, strict_parts: list[str], jobs_filter=None):
    phase = {}
    ctx.note("phase_s", phase)
    points = {var: L.base_run(ctx, var) for var in F.VARIANTS}
    phase["base_run"] = round(ctx.elapsed(), 1)
    npoints = {var: len(p) for var, p in points.items()}
    ctx.note("points_of_fault_free_run",
             {F.VAR_TEXT[var]: [f"{p['k']}:{p['op']}:{'+'.join(p['tabs'] or [])}" for p in pts]
              for var, pts in points.items()})
    table = L.model_check(ctx, npoints, with_import, strict_parts) if jobs_filter is None else {}
    phase["model_check"] = round(ctx.elapsed(), 1)
    jobs = [j for var in F.VARIANTS for j in L.make_jobs(ctx, points[var], with_import, var)]
    if jobs_filter is not None:
        jobs = jobs_filter(jobs)
    # quick: one recovery tree per distinct abstract state left by the recording runs
    entries = F.run_campaign(ctx.scratch, jobs, workers=8, dedup_trees=ctx.quick and jobs_filter is None)
    ctx.note("recovery_trees", {"scenarios": len(jobs),
                                "trees_executed": sum(1 for e in entries if len(e["hist"]) == 1 and "tree" not in e)})
    phase["real_runs"] = round(ctx.elapsed(), 1)
    # A planned fault whose point did not come (the points of a run can depend on the iteration order of
    # the subtree task set, which differs from run to run) did not happen: that run is a plain recording.
    unfired = 0
    for e in entries:
        if e["role"] == "fault" and len(e["hist"]) == 1 and not e["rec"].get("injected"):
            unfired += 1
            for x in entries:
                if x["scn"] == e["scn"]:
                    x["inj"] = {"kind": "none"}
            e["role"] = "recording"
            e["rec"]["inject"] = {"kind": "none"}
    ctx.note("planned_faults_whose_point_did_not_come", unfired)
    traces = [L.entry_trace(e) for e in entries]
    return points, npoints, table, jobs, entries, traces


def finish(ctx: Ctx, points, npoints, table, entries, traces, ctl, flags, keymap):
    verdicts, nuniq = L.validate(ctx, traces + [c[0] for c in ctl], npoints)
    ctx.cov.get("phase_s", {})["trace_validation"] = round(ctx.elapsed(), 1)
    for (t, chk, text), v in zip(ctl, verdicts[len(traces):]):
        ctx.negative_control(bool(chk(v)), text)
    verdicts = verdicts[:len(traces)]
    # Runs the model of redun as it is now does not accept (never on the unchanged tree): is the tree
    # behind (as pinned) or ahead of the model by one of the proposed repairs?  Try the other switch settings.
    drift = [i for i, v in enumerate(verdicts) if not v["acc"]]
    explained: dict = {}
    for fx in L.FALLBACKS:
        todo = [i for i in drift if not verdicts[i]["acc"]]
        if not todo:
            break
        vv, _ = L.validate(ctx, [traces[i] for i in todo], npoints, fixes=fx, what=f"fix{fx}")
        for i, x in zip(todo, vv):
            if x["acc"]:
                x["variant"] = fx
                verdicts[i] = x
                explained[fx] = explained.get(fx, 0) + 1
    ctx.note("asbuilt_drift", {"runs_not_accepted_by_as_built_model": len(drift),
                               "accepted_with_repair_switches(Subtree,Companion,Pop,NodeExit,Nested)": explained,
                               "unexplained": sum(1 for i in drift if not verdicts[i]["acc"])})
    nruns = sum(1 for e in entries if e["role"] != "import")
    ctx.count_eval(len(entries))
    ctx.count_impl_trace(len(entries))
    ctx.note("distinct_trace_records_validated", nuniq)
    # cross-check of the projection: sqlite's own foreign_key_check vs FKClosed on the abstract state
    for e, v in zip(entries, verdicts):
        if e["role"] == "import":
            continue
        real_bad = bool(e["rec"]["post"]["FKCheck"])
        if v["con"]["fkpost"] and real_bad:
            ctx.violation(f"PRAGMA foreign_key_check reports dangling rows outside the modelled tables after: "
                          f"{L.describe(e)}: {e['rec']['post']['FKCheck'][:3]}",
                          {"inj": e["inj"], "hist": e["hist"], "flag": "fk-unmodelled"})
        opaque = '"?' in json.dumps(F.tables_only(e["rec"]["post"]))
        if not v["con"]["fkpost"] and not real_bad and not opaque:
            raise MachineryError(f"abstract state is not FK closed but sqlite's foreign_key_check is clean: {L.describe(e)}")
        if e["rec"]["post"]["Dup"]:
            ctx.violation(f"duplicated rows in {e['rec']['post']['Dup']} after: {L.describe(e)}",
                          {"inj": e["inj"], "hist": e["hist"], "flag": "dup"})
    stats = L.judge(ctx, entries, verdicts, flags, keymap, points)
    for e in entries:
        fired = e["role"] in ("fault", "crash") and (e["rec"].get("injected") or e["rec"]["outcome"][0] == "crashed")
        edited = any(k == "run" and x for k, x in e["hist"])
        if fired or edited or e["role"] == "import" or any(k == "import" for k, _ in e["hist"]):
            ctx.distinct([e.get("var", 0), L.F.model_inj(e["inj"]), e["inj"].get("site"), e["hist"]])
    # fault / crash really happened where planned
    nfired = sum(1 for e in entries if e["role"] == "fault" and e["rec"].get("injected"))
    ncrash = sum(1 for e in entries if e["role"] == "crash" and e["rec"]["outcome"][0] == "crashed")
    nplan_f = sum(1 for e in entries if e["role"] == "fault")
    nplan_c = sum(1 for e in entries if e["role"] == "crash")
    unfired = ctx.cov.get("planned_faults_whose_point_did_not_come", 0)
    ctx.require(nfired == nplan_f and ncrash == nplan_c and unfired * 10 <= nplan_f + unfired,
                f"injections did not all fire: faults {nfired}/{nplan_f} (+{unfired} whose point did not come), "
                f"crashes {ncrash}/{nplan_c}")
    ctx.note("injections", {"faults": nfired, "crashes": ncrash, "real_runs": nruns,
                            "real_runs_per_workload": {F.VAR_TEXT[v]: sum(1 for e in entries if e.get("var", 0) == v
                                                                           and e["role"] != "import")
                                                       for v in F.VARIANTS}})
    if table:
        idle = L.idle_lookup(table, entries)
        ctx.note("spec_to_code_idle_states", idle)
    stats.pop("drift", None)
    ctx.note("verdict_stats", stats)
    smp = ([e for e in entries if e["role"] in ("fault", "crash")][:2]
           + [e for e in entries if len(e["hist"]) > 2][:1]
           + [e for e in entries if e.get("var") == 1 and e["role"] == "crash"][-1:])
    for e in smp:
        ctx.sample({"workload": F.VAR_TEXT[e.get("var", 0)], "injection": e["inj"], "history": e["hist"],
                    "outcome": e["rec"]["outcome"], "points": len(e["rec"]["points"])})
    return verdicts, stats


def run(ctx: Ctx) -> None:
    ctx.assume("two fixed workloads: parent(1) -> child(1) -> grand(11|111), check_valid='shallow' on parent; "
               "the same with child declared prov=False (inherited by grand)",
               "one injection per history; OperationalError raised before the commit takes effect",
               "sqlite file database (tmpfs); single scheduler process; controlled single-threaded event loop",
               "rows are named through redun's own hash functions (C14/C15/C17 are separate properties)")
    points, npoints, table, jobs, entries, traces = campaign(ctx, False, STRICT_PARTS)
    ctl = controls(entries, traces)
    finish(ctx, points, npoints, table, entries, traces, ctl, FLAGS, KEYMAP)


def replay(ctx: Ctx, rec: dict) -> None:
    r = rec["replay"]
    e2 = sorted({h[1] for h in r["hist"][1:2] if h[0] == "run"}) or [0]
    e3 = sorted({h[1] for h in r["hist"][2:3] if h[0] == "run"})
    imp = any(h[0] == "import" for h in r["hist"])

    var = r.get("var", 0)

    def only(jobs):
        inj = r["inj"] if r["inj"].get("kind", "none") != "none" else None
        return [{"id": 0, "var": 0, "inj": None, "edits2": [0, 2], "edits3": []},
                {"id": 1000, "var": 1, "inj": None, "edits2": [], "edits3": []},
                {"id": var * 1000 + 1, "var": var, "inj": inj, "edits2": e2 if not imp else [0, 1, 2, 3],
                 "edits3": e3, "with_import": imp}]

    points, npoints, table, jobs, entries, traces = campaign(ctx, imp, [], jobs_filter=only)
    ctl = controls(entries, traces)
    finish(ctx, points, npoints, table, entries, traces, ctl, FLAGS, KEYMAP)
