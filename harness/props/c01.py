"""
C01  Scheduler evaluation agrees with the graph-reduction semantics.

Spec: spec/eval/Eval.tla -- big-step reduction semantics as recursive TLA+ operators over program
documents (tasks with positional / keyword / expression-valued default arguments, nested containers,
lazy operators, partial tasks, cond, seq, catch with several handler pairs, catch_all with and without
recover, map_, fork_thread / join_thread, context and options), returning the SET of admissible
outcomes (two independently failing siblings may surface either error).
spec -> code: Eval_Gen enumerates every program of a reduced grammar (depth 1, thorough: depth 2) and
  prints it with its admissible outcomes; each is built as real redun expressions over the task library
  harness/evallib.py (transcribed in the spec) and run on the real Scheduler under a seeded random
  schedule of the controlled loop; a sample also runs on the real LocalExecutor (thread pool, process
  pool with forkserver, asyncio loop).
code -> spec: seeded random deeper programs are run the same ways, the observed outcome recorded, and
  TLC (Eval_Oracle) decides whether it is one the semantics admits.
The small-step confluence side (every schedule of Scheduler.tla ends in the reference value) is the
invariant Deterministic checked in C06/C07.
"""

from __future__ import annotations

import copy
import json

from ..core import Ctx
from .. import evallab as EL

META = {
    "level": "model_checking",
    "level_text": "TLC evaluates the reduction semantics (an explicit TLA+ operator definition) on every "
                  "program of a bounded grammar and on seeded deeper programs; the real scheduler's result "
                  "or error must be one the semantics admits, under controlled random schedules and on "
                  "the real thread / process / async executors.",
    "level_note": "The task library is transcribed by hand into the spec (Params/Body); Python runtime "
                  "error messages are left unspecified ('*': class only); values are small ints, strings, "
                  "lists, tuples, dicts; non-terminating programs are not generated.",
    "technique": "explicit TLA+ big-step semantics evaluated by TLC as oracle; spec->code enumeration "
                 "replay and code->spec outcome validation",
    "rule": "a case is one program (root expression) x execution mode; distinct by program JSON and mode; "
            "non-trivial = the program contains at least one task call",
}


def _norm(v):
    if isinstance(v, dict) and v.get("t") == "dict":
        return {"t": "dict", "v": sorted([[_norm(a), _norm(b)] for a, b in v["v"]], key=json.dumps)}
    if isinstance(v, dict) and v.get("t") in ("list", "tuple"):
        return {"t": v["t"], "v": [_norm(x) for x in v["v"]]}
    return v


def admits(outs: list, obs: dict) -> bool:
    for o in outs:
        if o["t"] == "raise":
            if obs["t"] == "raise" and o["v"][0] == obs["v"][0] and (o["v"][1] == "*" or o["v"][1] == obs["v"][1]):
                return True
        elif _norm(o) == _norm(obs):
            return True
    return False


def has_call(e) -> bool:
    return '"k": "call"' in json.dumps(e) or '"k": "map"' in json.dumps(e)


def run(ctx: Ctx) -> None:
    ctx.assume("task functions of the library are deterministic and terminate",
               "runtime error messages produced by Python itself are not modelled (class only)")
    # ---- spec -> code: the enumerated grammar ------------------------------------------------------
    # quick: all 528 programs of depth 1; thorough: plus every 15th of the 83,952 programs of depth 2
    stride = 15
    progs = EL.enumerate_programs(ctx, deep=not ctx.quick, stride=stride, offset=1 + ctx.seed % stride)
    ctx.require(len(progs) >= 500, f"enumeration too small: {len(progs)}")
    nall = len(progs)
    progs = [p for p in progs if EL.expressible(p["e"])]
    ctx.note("enumerated_not_expressible_in_user_code", nall - len(progs))
    nsingle = 0
    for p in progs:
        expr = EL.build(p["e"])
        obs = EL.run_sim(expr, ctx.rng)
        ctx.count_eval()
        ctx.count_impl_trace()
        if has_call(p["e"]):
            ctx.distinct(["sim", p["e"]])
        if len(p["outs"]) == 1:
            nsingle += 1
        if not admits(p["outs"], obs):
            ctx.violation(f"program {json.dumps(p['e'])[:300]} returned {obs}; the semantics admits {p['outs']}",
                          {"e": p["e"], "mode": "sim", "obs": obs, "outs": p["outs"]})
    ctx.note("enumerated_programs", len(progs))
    ctx.note("enumerated_with_single_outcome", nsingle)
    ctx.sample({"source": "Eval_Gen", "program": progs[len(progs) // 3]["e"], "admissible": progs[len(progs) // 3]["outs"]})
    # a sample of the enumerated programs on the real executors
    real_n = ctx.pick(25, 300)
    idx = sorted(ctx.rng.sample(range(len(progs)), min(real_n, len(progs))))
    for i in idx:
        p = progs[i]
        obs = EL.run_real(EL.build(p["e"]))
        ctx.count_eval()
        ctx.count_impl_trace()
        if has_call(p["e"]):
            ctx.distinct(["real", p["e"]])
        if not admits(p["outs"], obs):
            ctx.violation(f"[real executors] program {json.dumps(p['e'])[:300]} returned {obs}; admits {p['outs']}",
                          {"e": p["e"], "mode": "real", "obs": obs, "outs": p["outs"]})

    # ---- code -> spec: seeded deeper programs judged by TLC ----------------------------------------
    cases = []
    n_sim, n_real = ctx.pick(250, 3000), ctx.pick(30, 400)
    n_shared = ctx.pick(150, 1500)
    for i in range(n_sim + n_real + n_shared):
        if i >= n_sim + n_real:
            # shared sub-expressions under one parent, many completion orders
            e = EL.shared_expr_program(ctx.rng)
            expr = EL.build(e)
            obs = EL.run_sim(expr, ctx.rng, p_finish=ctx.rng.choice([0.15, 0.5, 0.85]))
            cases.append({"id": len(cases) + 1, "e": e, "ctx": EL.to_value({}), "run": EL.to_value({}),
                          "obs": obs, "mode": "sim-shared"})
            continue
        e = EL.wrap_container(ctx.rng, EL.random_expr(ctx.rng, ctx.rng.randint(2, 4)))
        mode = "sim" if i < n_sim else "real"
        expr = EL.build(e)
        obs = EL.run_sim(expr, ctx.rng) if mode == "sim" else EL.run_real(expr)
        cases.append({"id": len(cases) + 1, "e": e, "ctx": EL.to_value({}), "run": EL.to_value({}), "obs": obs, "mode": mode})
    # negative control: a corrupted observation must be rejected
    good = next(c for c in cases if c["obs"]["t"] == "int")
    bad = copy.deepcopy(good)
    bad["id"] = len(cases) + 1
    bad["obs"]["v"] += 1
    cases.append(bad)
    verdicts = EL.judge(ctx, cases, "random")
    ctx.negative_control(not verdicts[bad["id"]][0], "an observed value changed by one must be rejected by the oracle")
    multi = 0
    for c in cases[:-1]:
        acc, n, exp = verdicts[c["id"]]
        ctx.count_eval()
        ctx.count_impl_trace()
        ctx.distinct([c["mode"], c["e"]])
        multi += 1 if n > 1 else 0
        if not acc:
            ctx.violation(f"[{c['mode']}] program {json.dumps(c['e'])[:300]} returned {c['obs']}; "
                          f"the semantics admits {exp}", {"e": c["e"], "mode": c["mode"], "obs": c["obs"], "outs": exp})
    ctx.note("random_programs", len(cases) - 1)
    ctx.note("random_programs_with_several_admissible_outcomes", multi)
    ctx.sample({"source": "random", "program": cases[0]["e"], "observed": cases[0]["obs"]})


def replay(ctx: Ctx, rec: dict) -> None:
    r = rec["replay"]
    expr = EL.build(r["e"])
    obs = EL.run_sim(expr, ctx.rng) if r.get("mode") == "sim" else EL.run_real(expr)
    v = EL.judge(ctx, [{"id": 1, "e": r["e"], "ctx": EL.to_value({}), "run": EL.to_value({}), "obs": obs}], "replay")
    if not v[1][0]:
        ctx.violation(f"replayed program returned {obs}; admits {v[1][2]}", r)
