"""
C15  Cache keys separate every distinct call and only those.

Spec: spec/common/Hashing.tla (ArgDefaults / EvalPre: transcription of get_arg_defaults,
hash_args_eval, hash_eval; Norm / Canon / EvalLaw: Python's binding minus config and JobInfo
arguments; KindTag), spec/hash/EvalKey.tla (every signature x every way of writing a call x edits),
EvalKey_Trace.tla (recorded groups).

  TLC      EditEffect (a value edit must change the key iff it binds to a non-config, non-JobInfo
           parameter; keyword permutation and default-by-keyword must not), LawIdeal, ZipConfined /
           DefaultsConfined / VarKwConfined, LawUnlessDev, TaskHashSeparates, TagsDistinct; control:
           LawAsBuilt is violated.
  spec->code  every signature becomes a real @task in a generated module, every (call, edited call)
           pair is hashed with the scheduler's own composition
           hash_args_eval(task, args, {**get_arg_defaults(task, args, kwargs), **kwargs});
           the equality of real evaluation keys is compared with the law.  A sample of pairs (all
           deviation witnesses first) is run through a real Scheduler: "second call re-executed"
           must coincide with "keys differ".
  code->spec  random larger tasks (<= 4 named parameters, <= 3 config args, <= 6 supplied values)
           with groups of calls are hashed, recorded as (signature, calls, equality classes,
           leading tags) and judged pair by pair by TLC.
"""

from __future__ import annotations

import copy
import inspect

from ..core import Ctx, MachineryError
from ..hashlaw import (Case, GenModules, TagSpy, classes, fresh_scheduler, judge, note_judgement, timed, tlc,
                       write_json)
from ..tlc import expect_clean, expect_violation

META = {
    "level": "model_checking",
    "level_text": "TLC checks for every signature of the bounded universe (<= 2 named parameters, <= 3 "
                  "supplied arguments, <= 1 config arg, single edits in the quick tier; <= 3 named, <= 4 "
                  "supplied, <= 2 config args, single and double edits in the thorough tier; "
                  "positional-or-keyword with trailing defaults, keyword-only, *args, **kwargs, "
                  "optional JobInfo parameter), every way of writing a call and every edit (value, "
                  "keyword order, default by keyword) that the transcribed key construction changes "
                  "the key exactly when a non-config bound argument changes, and that the as-built "
                  "construction departs from this only inside three named classes of signatures; "
                  "every pair is executed on redun's get_arg_defaults + hash_args_eval with a real "
                  "generated task, a sample end to end through a Scheduler; random larger cases are "
                  "recorded and judged by TLC.",
    "level_note": "Hashes are modelled as injective constructors; argument values are short strings "
                  "(value hashing is C16); JobInfo values are only ever passed to the one JobInfo "
                  "parameter; positional-only parameters (`/`) are not generated; passing one "
                  "parameter positionally in one call and by keyword in the other is 'unspecified' "
                  "(the property does not claim equal keys there).",
    "technique": "explicit TLA+ spec + TLC exhaustive check over (signature, call, edit); spec->code "
                 "execution of every pair; code->spec batched validation of recorded equality classes "
                 "by TLC",
    "rule": "a case is (signature+config_args, call, edited call); distinct = distinct triple; "
            "non-trivial = the call was edited (at least one edit step)",
}

DEVS = ["ZipPastVarargs", "DefaultsByIndex", "VarKwConfig"]
KEYS = {"ZipPastVarargs": "config-args-zipped-past-varargs",
        "DefaultsByIndex": "kwonly-default-after-varargs-not-merged",
        "VarKwConfig": "config-arg-var-keyword-ignored"}
PNAMES = ["p1", "p2", "p3", "p4"]
KNAMES = ["k1", "k2", "k3"]


def sig_from_vec(v) -> dict:
    posd, va, kod, vk, cfg, jp = v
    return {"pos": [{"n": PNAMES[i], "d": d} for i, d in enumerate(posd)], "va": va,
            "ko": [{"n": KNAMES[i], "d": d} for i, d in enumerate(kod)], "vk": vk, "cfg": list(cfg), "jp": jp}


def sig_key(sig: dict):
    return (tuple((p["n"], p["d"]) for p in sig["pos"]), sig["va"], tuple((p["n"], p["d"]) for p in sig["ko"]),
            sig["vk"], tuple(sig["cfg"]), sig["jp"])


def call_key(c) -> tuple:
    return (tuple(c["pos"]), tuple(tuple(x) for x in c["kw"]))


def sig_text(sig: dict) -> str:
    def p(x):
        if not x["d"]:
            return x["n"]
        return f"{x['n']}=JobInfo()" if x["n"] == sig["jp"] else f"{x['n']}='0'"

    parts = [p(x) for x in sig["pos"]]
    if sig["va"]:
        parts.append("*va")
    elif sig["ko"]:
        parts.append("*")
    parts += [p(x) for x in sig["ko"]]
    if sig["vk"]:
        parts.append("**vk")
    return "(" + ", ".join(parts) + ")"


def call_text(c) -> str:
    return "f(" + ", ".join(list(c["pos"]) + [f"{k}={v}" for k, v in c["kw"]]) + ")"


class World:
    CHUNK = 500

    def __init__(self, ctx: Ctx):
        self.gen = GenModules(ctx, "c15")
        self.ns = f"c15_{ctx.seed}"
        self.tasks: dict = {}      # sig_key -> (task, twin with another version, module, index)
        self.keys: dict = {}
        from redun.scheduler import JobInfo, get_arg_defaults
        from redun.task import hash_args_eval
        from redun.value import get_type_registry

        self.JobInfo, self.get_arg_defaults, self.hash_args_eval = JobInfo, get_arg_defaults, hash_args_eval
        self.registry = get_type_registry()
        self.n = 0

    def ensure(self, sigs: list[dict]) -> None:
        need, seen = [], set()
        for s in sigs:
            k = sig_key(s)
            if k not in self.tasks and k not in seen:
                seen.add(k)
                need.append(s)
        for at in range(0, len(need), self.CHUNK):
            chunk = need[at:at + self.CHUNK]
            src = ["from redun import task", "from redun.scheduler import JobInfo", "", "OUT = {}", "TWIN = {}",
                   "CALLS = []", ""]
            for i, s in enumerate(chunk):
                self.n += 1
                name = f"t{self.n}"
                cfgs = f", config_args={list(s['cfg'])!r}" if s["cfg"] else ""
                for ver, store in (("1", "OUT"), ("2", "TWIN")):
                    src += [f"@task(namespace={self.ns + ('' if ver == '1' else '_twin')!r}, name={name!r}, "
                            f"version={ver!r}{cfgs})",
                            f"def {name}{sig_text(s)}:",
                            f"    CALLS.append({self.n})",
                            f"    return {self.n}",
                            f"{store}[{i}] = {name}", ""]
            mod = self.gen.load("\n".join(src) + "\n")
            for i, s in enumerate(chunk):
                self.tasks[sig_key(s)] = (mod.OUT[i], mod.TWIN[i], mod)

    def value(self, v: str):
        if v == "J1":
            return self.JobInfo()
        if v == "J2":
            return self.JobInfo(job_id="some-other-job")
        return v

    def args(self, c):
        return tuple(self.value(v) for v in c["pos"]), {k: self.value(v) for k, v in c["kw"]}

    def binds(self, sig: dict, c) -> bool:
        a, k = self.args(c)
        try:
            inspect.signature(self.tasks[sig_key(sig)][0].func).bind(*a, **k)
            return True
        except TypeError:
            return False

    def key(self, sig: dict, c, twin: bool = False):
        ck = (sig_key(sig), call_key(c), twin)
        if ck not in self.keys:
            t = self.tasks[sig_key(sig)][1 if twin else 0]
            a, k = self.args(c)
            # exactly the scheduler's composition (Scheduler._evaluate_apply / _exec_job_main_thread)
            dk = self.get_arg_defaults(t, a, k)
            self.keys[ck] = self.hash_args_eval(self.registry, t, a, {**dk, **k})
        return self.keys[ck]


def describe(c: Case) -> str:
    i = c.info
    return (f"evaluation keys are {'equal' if c.real == 's' else 'different'} but must "
            f"{'differ' if c.law == 'd' else 'be equal'}: def f{sig_text(i['sig'])} "
            f"config_args={i['sig']['cfg']}: {call_text(i['a'])} vs {call_text(i['b'])}"
            + (" [observed through a Scheduler run]" if c.source == "scheduler" else ""))


def prefer(c: Case):
    """Witness choice: collisions first, then ordinary signatures, then short calls."""
    s = c.info["sig"]
    n = sum(len(x["pos"]) + len(x["kw"]) for x in (c.info["a"], c.info["b"]))
    return (0 if c.law == "d" else 1, s["vk"] + (s["jp"] != "-") + len(s["cfg"]), 0 if s["pos"] else 1, n)


INVS = ["Specified", "EditEffect", "LawIdeal", "ZipConfined", "DefaultsConfined", "VarKwConfined", "LawUnlessDev",
        "TaskHashSeparates", "Emit"]


def cfg(named, sup, ncfg, edits, jplevel, invs) -> str:
    return (f"SPECIFICATION Spec\nCONSTANTS\n MaxNamed = {named}\n MaxSup = {sup}\n MaxCfg = {ncfg}\n"
            f" MaxEdits = {edits}\n JpLevel = {jplevel}\n" + "".join(f"INVARIANT {i}\n" for i in invs)
            + "CHECK_DEADLOCK FALSE\n")


def mkcall(v) -> dict:
    return {"pos": list(v[0]), "kw": [list(x) for x in v[1]]}


def forward(ctx: Ctx, w: World, consts: tuple, spy: TagSpy) -> list[Case]:
    res = expect_clean(tlc(ctx, f"signatures x calls x edits {consts}", "hash/EvalKey.tla", cfg(*consts, INVS),
                           timeout=3000, long_run=not ctx.quick, workers=ctx.pick(6, 8)), "EvalKey.tla")
    ctx.add_tlc(res)
    recs = res.recs("CASE")
    ctx.require(len(recs) > 1000, f"EvalKey emitted only {len(recs)} cases")
    sigs = {}
    for r in recs:
        s = sig_from_vec(r[0])
        sigs.setdefault(sig_key(s), s)
    with timed(ctx, "materialise"):
        w.ensure(list(sigs.values()))
    cases = []
    nbind = ntwin = 0
    for sv, c0, c1, law, vs in recs:
        s = sigs[sig_key(sig_from_vec(sv))]
        a, b = mkcall(c0), mkcall(c1)
        if nbind < 3000:      # the model's ValidCall must agree with Python's own binding
            nbind += 1
            if not (w.binds(s, a) and w.binds(s, b)):
                raise MachineryError(f"model generated a call Python rejects: f{sig_text(s)} {call_text(a)} {call_text(b)}")
        ka, kb = w.key(s, a), w.key(s, b)
        cases.append(Case(law, "".join(vs), "s" if ka[0] == kb[0] else "d", {"sig": s, "a": a, "b": b}, "EvalKey pair"))
        ctx.count_eval()
        if c0 != c1:
            ctx.distinct([sv, c0, c1])
        else:
            # "the key changes whenever the task hash changes": the same call on the twin task
            # (same signature, other version) must have another key
            if w.key(s, a, twin=True)[0] == ka[0]:
                ntwin += 1
                if ntwin > 3:
                    continue
                ctx.violation(f"same evaluation key for two tasks with different hashes: def f{sig_text(s)} {call_text(a)}",
                              {"case": {"sig": s, "a": a, "b": a}})
    if ntwin:
        ctx.note("calls_whose_key_ignores_the_task_hash", ntwin)
    ctx.count_impl_trace(len(w.keys))
    # tags
    n = 0
    for (sk, ck, twin), (eh, ah) in list(w.keys.items())[:3000]:
        te, ta = spy.tag_of.get(eh), spy.tag_of.get(ah)
        if te is None or ta is None:
            raise MachineryError("hash_struct spy saw no pre-image for an eval / args hash (seam moved)")
        if (te, ta) != ("Eval", "TaskArguments") and n == 0:
            n += 1
            ctx.violation(f"pre-images of eval_hash / args_hash start with tags {te!r} / {ta!r}", {"tags": [te, ta]})
    return cases


# ---------------------------------------------------------------------------------------------
def end_to_end(ctx: Ctx, w: World, cases: list[Case], n: int) -> list[Case]:
    """Run (call, edited call) through a real Scheduler; 're-executed' must mean 'keys differ'."""
    picked, used = [], set()

    def take(c: Case) -> bool:
        k = sig_key(c.info["sig"])
        if k in used or c.info["a"] == c.info["b"]:
            return False
        used.add(k)
        picked.append(c)
        return True

    for i in range(len(DEVS)):      # witnesses of each deviation first
        got = 0
        for c in cases:
            if c.vstr[1 << i] != c.law and got < 3 and take(c):
                got += 1
    rest = [c for c in cases if c.law in "sd"]
    ctx.rng.shuffle(rest)
    # the Scheduler's own merge of defaults matters for "default passed by keyword" pairs: take a few
    got = 0
    for c in rest:
        if got < 5 and len(c.info["b"]["kw"]) == len(c.info["a"]["kw"]) + 1 and c.vstr[-1] == c.law and take(c):
            got += 1
    for c in rest:
        if len(picked) >= n:
            break
        take(c)
    out = []
    with fresh_scheduler() as s:
        for c in picked:
            sig = c.info["sig"]
            t, _, mod = w.tasks[sig_key(sig)]
            a1, k1 = w.args(c.info["a"])
            a2, k2 = w.args(c.info["b"])
            s.run(t(*a1, **k1))
            before = len(mod.CALLS)
            s.run(t(*a2, **k2))
            reexec = len(mod.CALLS) > before
            out.append(Case(c.law, c.vstr, "d" if reexec else "s", c.info, "scheduler"))
            ctx.count_impl_trace()
            ctx.count_eval()
            if (c.real == "d") != reexec:
                # the Scheduler composes the key differently from the function-level seam: judged by
                # the law like any other observation (below), and recorded
                ctx.cov.setdefault("scheduler_vs_function_seam_disagreements", []).append(
                    f"def f{sig_text(sig)} {call_text(c.info['a'])} then {call_text(c.info['b'])}: "
                    f"re-executed={reexec}, function-level keys {'differ' if c.real == 'd' else 'equal'}")
    ctx.note("scheduler_runs", {"pairs": len(out), "second_call_reexecuted": sum(1 for c in out if c.real == "d")})
    return out


# ---------------------------------------------------------------------------------------------
def rand_sig(rng) -> dict:
    while True:
        npos, nko = rng.randint(0, 3), rng.randint(0, 2)
        if 1 <= npos + nko <= 4:
            break
    ndef = rng.randint(0, npos)
    sig = {"pos": [{"n": PNAMES[i], "d": 1 if i >= npos - ndef else 0} for i in range(npos)],
           "va": rng.choice([0, 1, 1]),
           "ko": [{"n": KNAMES[i], "d": rng.choice([0, 1, 1])} for i in range(nko)],
           "vk": rng.choice([0, 0, 1]), "cfg": [], "jp": "-"}
    names = [p["n"] for p in sig["pos"]] + (["va"] if sig["va"] else []) + [p["n"] for p in sig["ko"]] \
        + (["vk"] if sig["vk"] else [])
    cand = [p["n"] for p in sig["pos"][-1:] + sig["ko"][-1:] if p["d"]]
    if cand and rng.random() < 0.3:
        sig["jp"] = rng.choice(cand)
    k = rng.choice([0, 1, 1, 2, 3])
    chosen = set(rng.sample([n for n in names if n != sig["jp"]], min(k, len([n for n in names if n != sig["jp"]]))))
    sig["cfg"] = [n for n in names if n in chosen]
    return sig


def rand_call(rng, sig: dict) -> dict:
    vals = ["0", "1", "2", "3"]
    npos = len(sig["pos"])

    def val(name):
        return rng.choice(["J1", "J2"]) if name == sig["jp"] else rng.choice(vals)

    k = rng.randint(0, npos + (rng.choice([0, 1, 2, 3]) if sig["va"] else 0))
    if k > npos and rng.random() < 0.5:
        k = npos + rng.randint(1, 3)
    pos = [val(sig["pos"][i]["n"]) if i < npos else rng.choice(vals) for i in range(k)]
    kw = []
    for i, p in enumerate(sig["pos"]):
        if i >= k and (not p["d"] or rng.random() < 0.5):
            kw.append([p["n"], val(p["n"])])
    for p in sig["ko"]:
        if not p["d"] or rng.random() < 0.5:
            kw.append([p["n"], val(p["n"])])
    if sig["vk"]:
        for x in rng.sample(["x1", "x2"], rng.choice([0, 1, 1, 2])):
            kw.append([x, rng.choice(vals)])
    rng.shuffle(kw)
    return {"pos": pos, "kw": kw}


def edit_call(rng, sig: dict, c: dict) -> dict:
    c = copy.deepcopy(c)
    vals = ["0", "1", "2", "3"]
    npos = len(sig["pos"])
    what = rng.choice(["val", "val", "val", "perm", "adddef", "dropdef", "extra"])
    if what == "val" and (c["pos"] or c["kw"]):
        i = rng.randrange(len(c["pos"]) + len(c["kw"]))
        if i < len(c["pos"]):
            name = sig["pos"][i]["n"] if i < npos else "va"
            c["pos"][i] = rng.choice(["J1", "J2"]) if name == sig["jp"] else rng.choice(vals)
        else:
            k = c["kw"][i - len(c["pos"])]
            k[1] = rng.choice(["J1", "J2"]) if k[0] == sig["jp"] else rng.choice(vals)
    elif what == "perm":
        rng.shuffle(c["kw"])
    elif what in ("adddef", "dropdef"):
        have = {k for k, _ in c["kw"]}
        named = [(i, p) for i, p in enumerate(sig["pos"])] + [(99, p) for p in sig["ko"]]
        if what == "adddef":
            cand = [p for i, p in named if p["d"] and p["n"] not in have and i >= len(c["pos"])]
            if cand:
                p = rng.choice(cand)
                c["kw"].append([p["n"], "J1" if p["n"] == sig["jp"] else "0"])
        else:
            cand = [j for j, (k, v) in enumerate(c["kw"]) if v in ("0", "J1") and any(p["n"] == k and p["d"] for _, p in named)]
            if cand:
                del c["kw"][rng.choice(cand)]
    elif what == "extra" and sig["va"] and len(c["pos"]) >= npos:
        c["pos"].append(rng.choice(vals))
    return c


def validate_groups(ctx: Ctx, groups: list, what: str):
    f = write_json(ctx.tmp(f"groups_{what}.json"), groups)
    res = tlc(ctx, f"recorded groups ({what})", "hash/EvalKey_Trace.tla",
              "SPECIFICATION TSpec\nCHECK_DEADLOCK FALSE\n", env={"TRACE_FILE": str(f)}, timeout=1500)
    if res.error or res.violated:
        raise MachineryError(f"TLC failed on recorded groups ({what}): {res.error} {res.violated}\n{res.out[-2000:]}")
    ctx.add_tlc(res)
    out = {r[0]: r[1:] for r in res.recs("VERDICT")}
    ctx.require(len(out) == len(groups), f"verdicts {len(out)} != groups {len(groups)}")
    return out


def backward(ctx: Ctx, w: World, ngroups: int, spy: TagSpy) -> list[Case]:
    raw = []
    while len(raw) < ngroups:
        sig = rand_sig(ctx.rng)
        raw.append((sig, None))
    w.ensure([s for s, _ in raw])
    groups = []
    for sig, _ in raw:
        calls = []
        tries = 0
        while len(calls) < 2 and tries < 50:
            tries += 1
            c = rand_call(ctx.rng, sig)
            if w.binds(sig, c):
                calls += [c, copy.deepcopy(c)]
        if not calls:
            continue
        for _ in range(ctx.rng.randint(4, 8)):
            c = edit_call(ctx.rng, sig, ctx.rng.choice(calls))
            if w.binds(sig, c):
                calls.append(c)
        ks = [w.key(sig, c) for c in calls]
        tags = [["eval", spy.tag_of.get(ks[0][0])], ["arguments", spy.tag_of.get(ks[0][1])]]
        if ctx.rng.random() < 0.2:     # other record kinds, via their public hash functions
            from redun.hashing import hash_call_node, hash_tag

            tags += [["call_node", spy.tag_of.get(hash_call_node("t", "a", "r", []))],
                     ["tag", spy.tag_of.get(hash_tag("e", "k", 1, []))],
                     ["task", spy.tag_of.get(w.tasks[sig_key(sig)][0].hash)]]
        if any(t is None for _, t in tags):
            # task hashes are computed at import, before the spy of this phase: look only at what we saw
            tags = [t for t in tags if t[1] is not None]
        groups.append({"sig": sig, "calls": calls, "cls": classes([k[0] for k in ks]), "tags": tags})
        ctx.count_impl_trace()
    # negative controls: (1) two calls that differ in a plain positional argument recorded with one
    # class; (2) a wrong tag
    sig = {"pos": [{"n": "p1", "d": 0}], "va": 0, "ko": [], "vk": 0, "cfg": [], "jp": "-"}
    groups.append({"sig": sig, "calls": [{"pos": ["1"], "kw": []}, {"pos": ["2"], "kw": []}], "cls": [1, 1],
                   "tags": [["eval", "TaskArguments"]]})
    out = validate_groups(ctx, groups, "random")
    npairs, bad, invalid, wrong = out[len(groups)]
    ctx.negative_control(len(bad) == 1 and "s" not in bad[0][4],
                         "a recording that gives f('1') and f('2') the same key must be rejected by "
                         "EvalKey_Trace under every deviation subset")
    ctx.negative_control(len(wrong) == 1, "a recorded Eval pre-image tagged 'TaskArguments' must be rejected")
    cases = []
    for tid in range(1, len(groups)):
        npairs, bad, invalid, wrong = out[tid]
        g = groups[tid - 1]
        if invalid:
            raise MachineryError(f"model's ValidCall rejects a call Python binds: f{sig_text(g['sig'])} {g['calls']}")
        ctx.count_eval(npairs)
        if len(set(g["cls"])) > 1:
            ctx.distinct([g["sig"], g["calls"]])
        for kind, tag in wrong:
            ctx.violation(f"pre-image of record kind {kind!r} starts with tag {tag!r}", {"tags": [kind, tag]})
        for x, y, r, law, vs in bad:
            cases.append(Case(law, "".join(vs), r, {"sig": g["sig"], "a": g["calls"][x - 1], "b": g["calls"][y - 1]},
                              "recorded-group"))
    g = groups[0]
    ctx.sample({"source": "recorded group", "task": f"def f{sig_text(g['sig'])} config_args={g['sig']['cfg']}",
                "calls": [call_text(c) for c in g["calls"]], "observed_classes": g["cls"]})
    ctx.note("recorded_groups", len(groups) - 1)
    return cases


def run(ctx: Ctx) -> None:
    ctx.assume("hash_struct / sha512 are injective on the structures that occur (C14 and collision freedom)",
               "argument values are short strings; JobInfo values go to the JobInfo parameter only",
               "the evaluation key of a job is hash_args_eval(task, args, {**get_arg_defaults(...), **kwargs}) "
               "(checked on a sample of real Scheduler runs in every run)")
    w = World(ctx)
    with TagSpy() as spy:
        with timed(ctx, "forward"):
            if ctx.quick:
                cases = forward(ctx, w, (2, 3, 1, 1, 1), spy)
            else:       # wider signatures with single edits, and double edits on the smaller ones
                cases = (forward(ctx, w, (3, 4, 2, 1, 2), spy) + forward(ctx, w, (2, 3, 2, 2, 2), spy)
                         + forward(ctx, w, (3, 3, 1, 2, 1), spy))
        ctx.require(spy.calls > 0, "hash_struct spy recorded nothing")
        for i, d in enumerate(DEVS):
            n = sum(1 for c in cases if c.vstr[1 << i] != c.law)
            ctx.require(n > 0, f"deviation {d} never departs from the law in the model: not modelled")
            ctx.cov.setdefault("model_pairs_where_deviation_breaks_law", {})[d] = n
        if not ctx.quick:
            ctl = tlc(ctx, "control LawAsBuilt", "hash/EvalKey.tla", cfg(2, 3, 1, 1, 1, ["LawAsBuilt"]), workers=2)
            expect_violation(ctl, "LawAsBuilt", "EvalKey.tla LawAsBuilt control")
            ctx.add_tlc(ctl)
        with timed(ctx, "e2e"):
            cases += end_to_end(ctx, w, cases, ctx.pick(24, 150))
        j = judge(ctx, cases, DEVS, KEYS, describe, prefer=prefer)
        note_judgement(ctx, "spec_to_code", j)
        for law in "ds":
            mid = [c for c in cases if c.law == law and c.info["a"] != c.info["b"]]
            c = mid[len(mid) // 2]
            ctx.sample({"source": "EvalKey pair", "task": f"def f{sig_text(c.info['sig'])} config_args={c.info['sig']['cfg']}",
                        "a": call_text(c.info["a"]), "b": call_text(c.info["b"]),
                        "law": {"d": "different", "s": "same"}[law], "real": c.real})
        with timed(ctx, "backward"):
            bcases = backward(ctx, w, ctx.pick(150, 5000), spy)
        jb = judge(ctx, bcases, DEVS, KEYS, describe, prefer=prefer)
        note_judgement(ctx, "code_to_spec", jb)
    c0 = next(c for c in cases if c.law == "d" and c.real == "d")
    ctx.negative_control(Case(c0.law, c0.vstr, "s", c0.info).violates,
                         "an observed key equality flipped to 'same' for a changed non-config argument violates the law")
    ctx.note("distinct_tasks_imported", len(w.tasks))


def replay(ctx: Ctx, rec: dict) -> None:
    r = rec["replay"]
    if "case" not in r or "sig" not in r["case"]:
        return run(ctx)
    w = World(ctx)
    sig, a, b = r["case"]["sig"], r["case"]["a"], r["case"]["b"]
    w.ensure([sig])
    ks = [w.key(sig, a)[0], w.key(sig, b)[0]]
    out = validate_groups(ctx, [{"sig": sig, "calls": [a, b], "cls": classes(ks), "tags": []}], "replay")
    cases = [Case(law, "".join(vs), o, {"sig": sig, "a": a, "b": b}, "replay") for _, _, o, law, vs in out[1][1]]
    judge(ctx, cases, DEVS, KEYS, describe, prefer=prefer)
