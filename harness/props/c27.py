"""
C27  Task options follow the documented precedence.

Spec: spec/eval/Eval.tla, EvCall: options of a job = definition options (DefOpts), overridden by the
options exported by ancestor jobs, overridden by call-time options; exported names accumulate down the
job tree; option values that are expressions are evaluated (in the parent's context) before use.
Eval_OptGen enumerates chains of 1-3 calls whose steps combine plain call-time options, an
expression-valued option and exported options (33,824 chains) and prints the options each job of the
chain must run with; the jobs observe their own options through JobInfo.
Binding: spec -> code stride sample (thorough: denser) on the real Scheduler; code -> spec seeded longer
random chains judged by TLC (Eval_Oracle).
"""

from __future__ import annotations

import copy
import json

from ..core import Ctx
from ..tlc import run_tlc
from .. import evallab as EL
from .c01 import admits

META = {
    "level": "model_checking",
    "level_text": "TLC enumerates option chains with the model's expected effective options per job; the "
                  "sampled chains and seeded longer random chains are executed on the real scheduler, each "
                  "job reporting the options it runs with, and compared / judged by TLC.",
    "level_note": "Observed through JobInfo.options restricted to memory / vcpus / zone; settings the "
                  "scheduler imposes (cache=False -> cache_scope CSE, prov=False inherited) are not part "
                  "of the generated chains.",
    "technique": "explicit TLA+ semantics of option precedence and export evaluated by TLC; spec->code "
                 "case replay and code->spec outcome validation",
    "rule": "a case is a chain of (call-time options, lazy options, exported options) steps; distinct by "
            "JSON; non-trivial = some step sets an option",
}


def rand_step(rng):
    opts = {k: rng.randint(2, 6) for k in ("memory", "vcpus") if rng.random() < 0.4}
    exp = {k: rng.randint(7, 9) for k in ("memory", "zone", "vcpus") if rng.random() < 0.3}
    lazy = {"vcpus": rng.randint(1, 4)} if rng.random() < 0.25 else {}
    return {"opts": opts, "exp": exp, "lazy": lazy}


def rand_tree(rng, depth, tags=None):
    """Steps of a job tree: siblings / cousins set and export options of the same names."""
    tags = tags if tags is not None else [0]
    kids = []
    for _ in range(rng.randint(1, 3) if depth > 0 else 0):
        opts = {k: rng.randint(2, 6) for k in ("memory", "zone") if rng.random() < 0.4}
        exp = {k: rng.randint(7, 9) for k in ("memory", "zone", "vcpus") if rng.random() < 0.35}
        tags[0] += 1
        kids.append({"opts": opts, "exp": exp, "tag": tags[0], "d": 1 if rng.random() < 0.3 else 0,
                     "kids": rand_tree(rng, depth - 1, tags)})
    return kids


def run(ctx: Ctx) -> None:
    ctx.assume("options are observed from inside the job via JobInfo.options")
    stride = ctx.pick(131, 7)
    cfg = (f"SPECIFICATION Spec\nCONSTANT Stride = {stride}\nCONSTANT Offset = {1 + ctx.seed % stride}\n"
           "CHECK_DEADLOCK FALSE\n")
    res = run_tlc("eval/Eval_OptGen.tla", cfg, ctx.scratch, workers=1, timeout=2400, heap="6g")
    ctx.require(res.error is None, f"Eval_OptGen failed: {res.error}\n{res.out[-1500:]}")
    ctx.add_tlc(res)
    cases = res.recs("CASE")
    ctx.require(len(cases) >= 200, f"too few cases: {len(cases)}")
    ctx.note("universe_cases", 32 + 32 * 32 + 32 ** 3)
    ctx.note("cases_run", len(cases))
    for n, c in enumerate(cases):
        expr = EL.build(c["e"])
        mode = "real" if n % 40 == 0 else "sim"
        obs = EL.run_real(expr) if mode == "real" else EL.run_sim(expr, ctx.rng)
        ctx.count_eval()
        ctx.count_impl_trace()
        if '"int"' in json.dumps(c["e"]["args"][1]):
            ctx.distinct([mode, c["e"]])
        if not admits(c["outs"], obs):
            ctx.violation(f"[{mode}] jobs ran with options {json.dumps(obs)[:400]}; the model requires "
                          f"{json.dumps(c['outs'])[:400]}", {"e": c["e"], "mode": mode, "obs": obs, "outs": c["outs"]})
    mid = cases[len(cases) // 2]
    ctx.sample({"source": "Eval_OptGen", "plan": mid["e"]["args"][1]["v"], "expected": mid["outs"]})

    rcases = []
    for i in range(ctx.pick(120, 1500)):
        n = ctx.rng.randint(2, 5)
        plan = [rand_step(ctx.rng) for _ in range(n)]
        e = EL.call("olvl", EL.V(n), EL.V(plan))
        obs = EL.run_sim(EL.build(e), ctx.rng)
        rcases.append({"id": i + 1, "e": e, "ctx": EL.to_value({}), "run": EL.to_value({}), "obs": obs})
    ntree = 0
    for i in range(ctx.pick(80, 800)):
        e = EL.call("otree", EL.V(rand_tree(ctx.rng, ctx.rng.randint(2, 3))))
        obs = EL.run_sim(EL.build(e), ctx.rng)
        rcases.append({"id": len(rcases) + 1, "e": e, "ctx": EL.to_value({}), "run": EL.to_value({}), "obs": obs})
        ntree += 1
    ctx.note("random_trees", ntree)
    bad = copy.deepcopy(rcases[0])
    bad["id"] = len(rcases) + 1
    bad["obs"]["v"][0] = {"t": "dict", "v": [[{"t": "str", "v": "memory"}, {"t": "int", "v": 99}]]}
    rcases.append(bad)
    verdicts = EL.judge(ctx, rcases, "opts")
    ctx.negative_control(not verdicts[bad["id"]][0], "a corrupted observed option value must be rejected")
    for c in rcases[:-1]:
        acc, n, exp = verdicts[c["id"]]
        ctx.count_eval()
        ctx.count_impl_trace()
        ctx.distinct(["rand", c["e"]])
        if not acc:
            ctx.violation(f"[random chain] jobs ran with {json.dumps(c['obs'])[:400]}; the model admits "
                          f"{json.dumps(exp)[:400]}", {"e": c["e"], "obs": c["obs"]})
    ctx.sample({"source": "random-chain", "case": {k: rcases[1][k] for k in ("e", "obs")}})


def replay(ctx: Ctx, rec: dict) -> None:
    r = rec["replay"]
    obs = EL.run_sim(EL.build(r["e"]), ctx.rng)
    v = EL.judge(ctx, [{"id": 1, "e": r["e"], "ctx": EL.to_value({}), "run": EL.to_value({}), "obs": obs}], "replay")
    if not v[1][0]:
        ctx.violation(f"replayed chain observed {obs}; admits {v[1][2]}", r)
