"""
C25  Handle lineage and rollback follow the state model.

Spec: spec/seq/Handles.tla -- handle states as terms (init / fork / call paths), the tables
handle / handle_edge as the machine [rows, valid, edges], advance_handle and rollback_handle
transcribed as coded (get-or-create with revalidation, fork_parent walk, rollback graph built from
VALID parents of the same name), and a reference lineage model (valid iff not derived from a
rolled-back-to state unless derived again since).  The two places where the code as built leaves
the reference are named deviations (ForkEdgeUnrecorded, RollbackSkipsInvalidParent); with both
switched off the machine equals the reference on every history (TLC), with each one switched on
TLC produces the counterexample.  spec/seq/HandlesWf.tla lifts this to the scheduler: a chain of
handle-writing tasks re-executed while bodies are edited and reverted, including runs that end in an
error because a stage fails after its side effect (the rollback of the state the failing job started
from has happened by then: it precedes execution).

Binding, both directions:
  spec -> code: every behaviour of Handles_Gen (exhaustive tree for small MaxOps, -simulate for long
                ones) is replayed through RedunBackendDb.advance_handle / rollback_handle with real
                Handle objects on an in-memory sqlite backend; is_valid_handle of every state is
                compared with the reference (the property) and with the as-built machines (to
                attribute a difference to a named deviation) after every call.
                Workflow histories of HandlesWf_Gen run through a real Scheduler (generated module,
                bodies edited between executions, executions counted inside the tasks) and the set
                of executed stages per run is compared with the model's.
  code -> spec: seeded random longer histories are executed on the real backend, recorded and
                validated by TLC (Handles_Trace) with all invariants evaluated at every step.
"""

from __future__ import annotations

import copy
import hashlib
import importlib.util
import json
import logging
import os
import sys

from redun import Handle

from ..core import Ctx, MachineryError
from ..tlc import expect_clean, expect_violation, run_tlc

META = {
    "level": "model_checking",
    "level_text": "TLC checks on every history of <= 6 advance/rollback operations (forks, user forks, "
                  "calls, merges, 1-2 names) that the is_valid flags of the transcribed backend equal "
                  "the reference lineage model unless one of two named deviations has fired, that "
                  "the repaired machine equals it always, and -- on every edit/revert history of a "
                  "3-stage handle-writing workflow, runs that fail after a side effect included -- that a "
                  "stored result holding an invalidated "
                  "state is never replayed except through those deviations.  Every behaviour of a "
                  "small exhaustive tree, thousands of simulated ones and the workflow histories are "
                  "executed on the real backend / scheduler and compared step by step; random longer "
                  "executions of the real backend are validated by TLC.",
    "level_note": "Bounded histories and term depth; operation shapes are the ones the scheduler and "
                  "user code can produce (implicit fork, explicit fork chains, call, merge, rollback); "
                  "single process, sqlite; hash collisions between distinct terms excluded.",
    "technique": "explicit TLA+ spec (as-built machine + reference lineage model + named deviations) "
                 "+ TLC exhaustive check; spec->code behaviour replay on backend and scheduler; "
                 "code->spec batched trace validation by TLC",
    "rule": "a case is one history (operation sequence on the backend, or kinds + version vectors of a "
            "workflow); distinct = distinct operation / version sequence; non-trivial = at least one "
            "rollback invalidated a state (backend) or at least one run replayed a stage and another "
            "re-executed one (workflow)",
}

D1, D2 = "ForkEdgeUnrecorded", "RollbackSkipsInvalidParent"
KEYS = {D1: "fork-edge-unrecorded", D2: "rollback-skips-invalid-parent"}
WHAT = {
    D1: "a handle forked by user code (h.fork(key)) and then handed to / returned from a task gets a "
        "row but no handle_edge from the state it was forked from, so rolling back to an ancestor "
        "leaves everything downstream of the fork valid (stored results are replayed after an "
        "edit/revert: fast revert on a handle)",
    D2: "rollback_handle builds its graph only from edges whose parent row is valid, so states "
        "behind an already invalid state (or below an invalid rollback target) stay valid although "
        "they derive from the rolled-back-to state and were not derived again",
}
ALL_DEV = '{"ForkEdgeUnrecorded", "RollbackSkipsInvalidParent"}'


class StageFailed(Exception):
    """Raised by the failing version of a workflow stage (after its side effect)."""


class VH(Handle):
    """Handle used by the harness (pickled by record_value, so it lives at module level)."""

    def __init__(self, name, *args, **kwargs):
        pass


def tkey(term) -> str:
    return json.dumps(term, separators=(",", ":"))


def canon(terms) -> list[str]:
    return sorted(tkey(t) for t in terms)


def _dbg(ctx: Ctx, what: str) -> None:
    if os.environ.get("VERIF_DEBUG"):
        print(f"  [c25 +{ctx.elapsed():6.1f}s] {what}", flush=True)


class Reporter:
    """One VIOLATION per key / a few unkeyed ones per run, with counts in the evidence."""

    def __init__(self, ctx: Ctx):
        self.ctx = ctx
        self.count: dict[str, int] = {}

    def report(self, what: str, replay, key=None, cap=3):
        k = key or "(unkeyed)"
        self.count[k] = self.count.get(k, 0) + 1
        if self.count[k] <= (1 if key else cap):
            self.ctx.violation(what, replay, key=key)


# --------------------------------------------------------------------------------------------------
# the real backend, driven by model operations
# --------------------------------------------------------------------------------------------------
def new_backend():
    from redun.backends.db import RedunBackendDb

    logging.getLogger("redun").setLevel(logging.CRITICAL)
    backend = RedunBackendDb(db_uri="sqlite:///:memory:")
    backend.load()
    for name in ("advance_handle", "rollback_handle", "is_valid_handle"):
        if not callable(getattr(backend, name, None)):
            raise MachineryError(f"seam missing: RedunBackendDb.{name}")
    return backend


class World:
    """
    Interprets model operations on real Handle objects and a real RedunBackendDb.  Objects are
    built the way the scheduler builds them (constructor, .fork(key), .apply_call(call_hash)) and
    kept per term, as they are within one process.  The call hash of call(p, h) is a digest of h
    and p's hash, as an eval hash is a digest of the task and its (handle) argument.  `uniq` makes
    the handle names of this behaviour unique, so one backend serves thousands of behaviours.
    """

    def __init__(self, backend, uniq: str):
        self.b = backend
        self.uniq = uniq
        self.memo: dict[str, Handle] = {}
        self.terms: dict[str, list] = {}

    def build(self, term):
        k = tkey(term)
        if k in self.memo:
            return self.memo[k]
        if len(term) == 1:
            o = VH(f"{term[0]}_{self.uniq}")
        else:
            par = self.build(term[:-1])
            kind, lab = term[-1]
            if kind == "f":
                o = par.fork(lab)
            else:
                o = par.apply_call(hashlib.sha1(f"{lab}:{par.get_hash()}".encode()).hexdigest())
        self.memo[k] = o
        self.terms[k] = term
        return o

    def fresh(self, term):
        """x = parent.fork(key): a new object that has not been through the backend."""
        par = self.build(term[:-1])
        o = par.fork(term[-1][1])
        self.memo[tkey(term)] = o
        self.terms[tkey(term)] = term
        return o

    def apply(self, op) -> list:
        if op["n"] == "adv":
            for x in sorted(op["fresh"], key=len):
                self.fresh(x)
            parents = [self.build(p) for p in op["ps"]]
            child = self.build(op["c"])
            self.b.advance_handle(parents, child)
        elif op["n"] == "rb":
            self.b.rollback_handle(self.build(op["c"]))
        else:
            raise MachineryError(f"unknown op {op}")
        return [self.terms[k] for k, o in self.memo.items() if self.b.is_valid_handle(o)]


def classify(obs, st, fired_now) -> tuple[str, list]:
    """
    obs: canonical valid set observed.  st: canonical sets of the model step {ref, v, v1, v2}.
    Returns (status, deviations): 'ok' (= reference), 'ok-drift' (= reference but not as built),
    'dev' (explained by the named deviations listed), 'viol' (unexplained).
    """
    if obs == st["ref"]:
        return ("ok" if obs == st["v"] else "ok-drift"), []
    devs = []
    if obs == st["v1"]:
        devs.append(D1)
    if obs == st["v2"]:
        devs.append(D2)
    if not devs and obs == st["v"]:
        devs = sorted(fired_now)
    return ("dev", devs) if devs else ("viol", [])


def replay_behaviour(ctx: Ctx, rep: Reporter, backend, beh: list, uniq: str, source: str, stats: dict) -> None:
    w = World(backend, uniq)
    invalidated = False
    prev_valid: set = set()
    status = "ok"
    for i, step in enumerate(beh):
        try:
            obs = canon(w.apply(step["op"]))
        except MachineryError:
            raise
        except Exception as e:  # the backend API must not raise on these calls
            rep.report(f"{step['op']['n']} raised {type(e).__name__}: {e} at step {i + 1}",
                       {"source": source, "behaviour": beh, "at": i})
            status = "viol"
            break
        if set(prev_valid) - set(obs):
            invalidated = True
        prev_valid = set(obs)
        st = {k: canon(step[k]) for k in ("ref", "v", "v1", "v2")}
        status, devs = classify(obs, st, step["fired"])
        if status == "dev":
            for d in devs:
                rep.report(f"is_valid_handle differs from the reference lineage model after step {i + 1} "
                           f"({step['op']['n']}): {WHAT[d]}",
                           {"source": source, "behaviour": beh, "at": i, "impl_valid": obs,
                            "ref_valid": st["ref"], "deviation": d}, key=KEYS[d])
            break
        if status == "viol":
            rep.report(f"is_valid_handle after step {i + 1} ({step['op']['n']}) differs from the reference "
                       f"lineage model and from every as-built machine: impl {obs} ref {st['ref']}",
                       {"source": source, "behaviour": beh, "at": i, "impl_valid": obs,
                        "ref_valid": st["ref"]})
            break
    stats[status] = stats.get(status, 0) + 1
    if invalidated:
        ctx.distinct([s["op"] for s in beh])


# --------------------------------------------------------------------------------------------------
# code -> spec: random histories on the real backend
# --------------------------------------------------------------------------------------------------
def gen_random_trace(rng, backend, uniq: str, n_ops: int) -> list:
    names = ["a", "b"][: rng.choice([1, 1, 2])]
    keys, ukeys, calls = ["1", "2"], ["a", "b"], ["c1", "c2", "c3"]
    w = World(backend, uniq)
    known: list = []
    trace = []

    def note(*terms):
        for t in terms:
            if t not in known:
                known.append(t)

    for _ in range(n_ops):
        base = known + [[n] for n in names if [n] not in known]
        shallow = [t for t in base if len(t) <= 5]
        kinds = ["fork"] * 3
        if known:
            kinds += ["call"] * 4 + ["rb"] * 3 + ["ufork", "uret", "ufork2"]
        if len(known) >= 2:
            kinds += ["merge1"] * 2
        if len(known) >= 3:
            kinds += ["merge2"]
        kind = rng.choice(kinds)
        op = {"n": "adv", "ps": [], "c": None, "fresh": []}
        if kind == "fork":
            p = rng.choice(shallow)
            op["ps"], op["c"] = [p], p + [["f", rng.choice(keys)]]
        elif kind == "call":
            p = rng.choice([t for t in known if len(t) <= 5] or known)
            op["ps"], op["c"] = [p], p + [["c", rng.choice(calls)]]
        elif kind in ("ufork", "uret", "ufork2"):
            p = rng.choice(shallow)
            k = rng.choice(ukeys)
            x = p + [["f", k]]
            if kind == "ufork2":
                k = rng.choice(ukeys)
                x = x + [["f", k]]
            op["ps"], op["fresh"] = [x], [x]
            op["c"] = x + ([["c", rng.choice(calls)]] if kind == "uret" else [["f", k]])
        elif kind in ("merge1", "merge2"):
            c = rng.choice(known)
            same = [t for t in known if t[0] == c[0] and t != c]
            if len(same) < (1 if kind == "merge1" else 2):
                continue
            op["ps"], op["c"] = rng.sample(same, 1 if kind == "merge1" else 2), c
        else:
            op = {"n": "rb", "ps": [], "c": rng.choice(known + [[n] for n in names]), "fresh": []}
        obs = w.apply(op)
        if op["n"] == "adv":
            # everything the model says gets a row
            for x in op["fresh"]:
                q = x[:-1]
                note(q)
                while len(q) > 1 and q[-1][0] == "f":
                    q = q[:-1]
                    note(q)
            note(*op["ps"], op["c"])
        trace.append({"op": op, "obs": sorted(obs, key=tkey)})
    return trace


TRACE_CFG = f"""SPECIFICATION TSpec
CONSTANTS
  Names = {{"a"}}
  Keys = {{}}
  UKeys = {{}}
  Calls = {{}}
  MaxDepth = 0
  MaxOps = 0
  Shapes = {{}}
  Dev = {ALL_DEV}
INVARIANT TypeOK
INVARIANT AgreeUnlessFired
INVARIANT RepairedAgrees
INVARIANT Supported
PROPERTY TMonotone
CHECK_DEADLOCK FALSE
"""


def validate_traces(ctx: Ctx, traces: list, what: str):
    f = ctx.tmp(f"traces_{what}.json")
    f.write_text(json.dumps(traces))
    res = run_tlc("seq/Handles_Trace.tla", TRACE_CFG, ctx.scratch, workers=1,
                  env={"TRACE_FILE": str(f)}, timeout=900)
    ctx.require(res.error is None and not res.violated,
                f"TLC failed on trace validation ({what}): {res.error} {res.violated}\n{res.out[-2500:]}")
    ctx.add_tlc(res)
    verdicts = {v[0]: (v[1], v[2], v[3]) for v in res.recs("VERDICT")}
    ctx.require(len(verdicts) == len(traces), f"verdicts {len(verdicts)} != traces {len(traces)} ({what})")
    return verdicts


def judge_trace(rep: Reporter, tr: list, verdict, source: str, stats: dict) -> None:
    bad, expl, fired = verdict
    if bad == 0:
        stats["ok"] = stats.get("ok", 0) + 1
        return
    devs = [d for tag, d in (("d1", D1), ("d2", D2)) if tag in expl]
    if not devs and "asbuilt" in expl:
        devs = sorted(fired)
    step = tr[bad - 1]
    if devs:
        stats["dev"] = stats.get("dev", 0) + 1
        for d in devs:
            rep.report(f"recorded execution leaves the reference lineage model at step {bad} "
                       f"({step['op']['n']}): {WHAT[d]}",
                       {"source": source, "trace": tr, "at": bad - 1, "deviation": d}, key=KEYS[d])
    else:
        stats["viol"] = stats.get("viol", 0) + 1
        rep.report(f"recorded execution rejected by Handles_Trace at step {bad}: op={step['op']} "
                   f"impl_valid={step['obs']} (differs from the reference and from every as-built machine)",
                   {"source": source, "trace": tr, "at": bad - 1})


# --------------------------------------------------------------------------------------------------
# workflow level: a real Scheduler, tasks edited between executions
# --------------------------------------------------------------------------------------------------
PLAIN = '''
@task(namespace="{ns}")
def s{i}(c):
    LOG.append({i})
    body = "version {ver}"
    return c
'''
UFORK = '''
@task(namespace="{ns}")
def inner{i}(c):
    LOG.append({i})
    body = "version {ver}"
    return c


@task(namespace="{ns}")
def s{i}(c):
    return inner{i}(c.fork("a"))
'''
# the writing task performs its side effect and then raises: the run ends in an error at this stage
PLAIN_FAIL = '''
@task(namespace="{ns}")
def s{i}(c):
    LOG.append({i})
    body = "fails after its side effect"
    raise StageFailed("stage {i}")
'''
UFORK_FAIL = '''
@task(namespace="{ns}")
def inner{i}(c):
    LOG.append({i})
    body = "fails after its side effect"
    raise StageFailed("stage {i}")


@task(namespace="{ns}")
def s{i}(c):
    return inner{i}(c.fork("a"))
'''
WF = '''
@task(namespace="{ns}", cache=False)
def wf():
    c = VH("{name}")
{chain}
    return c
'''


def gen_module(ctx: Ctx, ns: str, name: str, kinds: list, vers: list, tag: str, kwbits: int = 0, fail: int = 0):
    """kwbits: bit i-1 set = stage i receives its handle by keyword (the lineage model does not depend on
    how the argument is passed; the code must not either).  fail: stage whose writing task raises after
    its side effect (0 = none)."""
    src = "from redun import task\nfrom harness.props.c25 import VH, StageFailed\n\nLOG = []\n"
    for i, (k, v) in enumerate(zip(kinds, vers), start=1):
        if i == fail:
            src += (PLAIN_FAIL if k == "plain" else UFORK_FAIL).format(ns=ns, i=i)
        else:
            src += (PLAIN if k == "plain" else UFORK).format(ns=ns, i=i, ver=v)
    chain = "\n".join(f"    c = s{i}(c=c)" if (kwbits >> (i - 1)) & 1 else f"    c = s{i}(c)"
                      for i in range(1, len(kinds) + 1))
    src += WF.format(ns=ns, name=name, chain=chain)
    path = ctx.tmp(f"wfmods/{ns}_{tag}.py")
    path.write_text(src)
    modname = f"verif_c25_{ns}_{tag}"
    spec = importlib.util.spec_from_file_location(modname, path)
    mod = importlib.util.module_from_spec(spec)
    sys.modules[modname] = mod
    spec.loader.exec_module(mod)
    return mod


def new_scheduler():
    from redun import Scheduler
    from redun.backends.db import RedunBackendDb

    logging.getLogger("redun").setLevel(logging.CRITICAL)
    s = Scheduler(backend=RedunBackendDb(db_uri="sqlite:///:memory:"))
    s.load()
    return s


def run_workflow_history(ctx: Ctx, rep: Reporter, sched, wb: dict, uniq: str, source: str, stats: dict,
                         flip: bool = False) -> str:
    """Returns 'ok' | 'dev' | 'viol' | 'drift'.  `flip` corrupts one expectation (negative control)."""
    ns, name = f"c25wf{uniq}", f"conn{uniq}"
    import zlib

    # every second history passes some handles by keyword (pattern fixed per history)
    kwbits = (zlib.crc32(uniq.encode()) >> 3) & 0xFF if zlib.crc32(uniq.encode()) & 1 else 0
    following = "F"
    status = "ok"
    some_replay = some_exec = False
    for n, run in enumerate(wb["runs"]):
        fail = run.get("fail", 0)
        mod = gen_module(ctx, ns, name, wb["kinds"], run["vers"], str(n), kwbits, fail)
        failed = False
        try:
            sched.run(mod.wf())
        except StageFailed:
            failed = True
        except Exception as e:
            rep.report(f"scheduler raised {type(e).__name__}: {e} in run {n + 1}",
                       {"source": source, "wf": wb, "at": n})
            return "viol"
        if failed != bool(fail):
            rep.report(f"run {n + 1} {'ended in the error of stage ' + str(fail) if failed else 'succeeded'} but the "
                       f"model says it {'fails at stage ' + str(fail) if fail else 'succeeds'}",
                       {"source": source, "wf": wb, "at": n})
            return "viol"
        counts = {i: mod.LOG.count(i) for i in set(mod.LOG)}
        got = sorted(counts)
        exF, exA = sorted(run["exF"]), sorted(run["exA"])
        if flip and n == len(wb["runs"]) - 1:
            exF = exA = sorted(set(range(1, len(wb["kinds"]) + 1)) - set(exF)) or [1]
        if n > 0:
            some_replay |= len(got) < len(wb["kinds"])
            some_exec |= bool(got)
        if any(c > 1 for c in counts.values()):
            rep.report(f"a stage executed more than once in run {n + 1}: {counts}",
                       {"source": source, "wf": wb, "at": n, "counts": counts})
            return "viol"
        if following == "F" and got == exF:
            if got != exA:
                status = "drift"  # the code no longer behaves as built, it behaves as repaired
            continue
        if got == exA and run["fired"]:
            if following == "F":
                following = "A"
                status = "dev"
                replayed = sorted(set(exF) - set(got))
                for d in sorted(run["fired"]):
                    rep.report(f"run {n + 1} of the workflow replays stage(s) {replayed} from the cache although "
                               f"their stored result holds a handle state that was rolled back and not derived "
                               f"again (executed {got}, reference {exF}): {WHAT[d]}",
                               {"source": source, "wf": wb, "at": n, "executed": got, "reference": exF,
                                "deviation": d}, key=KEYS[d])
            continue
        rep.report(f"run {n + 1} executed stages {got}; reference model {exF}, as-built model {exA} "
                   f"(kinds {wb['kinds']}, versions {[r['vers'] for r in wb['runs'][: n + 1]]}, "
                   f"failing stage per run {[r.get('fail', 0) for r in wb['runs'][: n + 1]]})",
                   {"source": source, "wf": wb, "at": n, "executed": got, "reference": exF, "asbuilt": exA})
        return "viol"
    stats[status] = stats.get(status, 0) + 1
    if some_replay and some_exec:
        ctx.distinct({"kinds": wb["kinds"], "vers": [r["vers"] for r in wb["runs"]],
                      "fail": [r.get("fail", 0) for r in wb["runs"]]})
    return status


# --------------------------------------------------------------------------------------------------
def handles_cfg(spec: str, names: str, keys: str, ukeys: str, calls: str, depth: int, ops: int, dev: str,
                shapes: str, extra: str) -> str:
    return (f"SPECIFICATION {spec}\nCONSTANTS\n Names = {names}\n Keys = {keys}\n UKeys = {ukeys}\n"
            f" Calls = {calls}\n MaxDepth = {depth}\n MaxOps = {ops}\n Dev = {dev}\n Shapes = {shapes}\n"
            f"{extra}CHECK_DEADLOCK FALSE\n")


def wf_cfg(spec: str, dev: str, stages: int, runs: int, extra: str, fail: bool = True) -> str:
    failat = "{" + ", ".join(str(i) for i in range(0, stages + 1 if fail else 1)) + "}"
    return (f"SPECIFICATION {spec}\nCONSTANTS\n Names = {{\"conn\"}}\n Keys = {{\"1\"}}\n UKeys = {{\"a\"}}\n"
            f" Calls = {{}}\n MaxDepth = 0\n MaxOps = 0\n Dev = {dev}\n Shapes = {{}}\n NStages = {stages}\n"
            f" MaxRuns = {runs}\n Versions = {{1, 2}}\n StageKinds = {{\"plain\", \"ufork\"}}\n FailAt = {failat}\n"
            f"{extra}CHECK_DEADLOCK FALSE\n")


INVS = ("VIEW View\nINVARIANT TypeOK\nINVARIANT {agree}\nINVARIANT RepairedAgrees\nINVARIANT Supported\n"
        "PROPERTY Monotone\nPROPERTY NameLocal\n")
SH_ALL = '{"fork", "call", "ufork", "uret", "merge1", "rb"}'
SH_CORE = '{"fork", "call", "ufork", "merge1", "rb"}'
SH_MID = '{"fork", "call", "ufork", "uret", "ufork2", "merge1", "rb", "rbnew"}'
SH_WIDE = '{"fork", "call", "ufork", "uret", "ufork2", "merge1", "merge2", "rb", "rbnew"}'


def run(ctx: Ctx) -> None:
    ctx.assume("operations have the shapes the scheduler and user code produce (implicit fork, explicit "
               "fork chains, call, merge, rollback); advances link states of one handle name",
               "the hash of a handle state is an injective function of its term",
               "one process, one sqlite session (no concurrent writers)",
               "the reference counts the states taking part in a derivation (child and listed parents) "
               "as re-established, following is_valid_handle's docstring "
               "('valid if current or ancestral to the current handle')")
    rep = Reporter(ctx)

    # ---- 1. model checking --------------------------------------------------------------------
    one, two = '{"a"}', '{"a", "b"}'
    K1, UK, C1, C2 = '{"1"}', '{"a"}', '{"c1"}', '{"c1", "c2"}'
    # (a) the machine as built: flags = reference until a deviation fires; the repaired machine
    #     (same run, variable mfix) equals the reference on every history
    inv = INVS.format(agree="AgreeUnlessFired")
    if ctx.quick:
        main = [("5 ops, all shapes", handles_cfg("Spec", one, K1, UK, C1, 3, 5, ALL_DEV, SH_ALL, inv)),
                ("6 ops, forks/calls/merges/rollbacks",
                 handles_cfg("Spec", one, K1, UK, C1, 3, 6, ALL_DEV, '{"fork", "call", "merge1", "rb"}', inv)),
                ("4 ops, two names, chained user forks, rollback of unrecorded states",
                 handles_cfg("Spec", two, K1, UK, C1, 3, 4, ALL_DEV, SH_MID, inv))]
    else:
        main = [("6 ops, all shapes", handles_cfg("Spec", one, K1, UK, C1, 3, 6, ALL_DEV, SH_ALL, inv)),
                ("6 ops, depth 4, two-parent merges, no user forks",
                 handles_cfg("Spec", one, K1, UK, C2, 4, 6, ALL_DEV, '{"fork", "call", "merge1", "merge2", "rb"}', inv)),
                ("5 ops, two names, chained user forks, rollback of unrecorded states",
                 handles_cfg("Spec", two, K1, UK, C1, 3, 5, ALL_DEV, SH_MID, inv)),
                ("4 ops, two names, wide shapes, rollback idempotence",
                 handles_cfg("Spec", two, K1, UK, C1, 3, 4, ALL_DEV, SH_WIDE, inv + "INVARIANT RbIdempotent\n"))]
    for what, cfg in main:
        res = expect_clean(run_tlc("seq/Handles.tla", cfg, ctx.scratch, workers=ctx.pick(4, "auto"), timeout=1500,
                                   heap=ctx.pick("4g", "8g")), what)
        ctx.add_tlc(res)
        _dbg(ctx, f"{what}: {res.distinct} states")
    # (b) model-level controls: each deviation alone breaks Agree
    ctl = {D1: handles_cfg("Spec", one, K1, UK, C1, 3, 3, '{"%s"}' % D1, '{"fork", "call", "ufork", "rb"}',
                           "VIEW View\nINVARIANT Agree\n"),
           D2: handles_cfg("Spec", one, K1, UK, C1, 3, 6, '{"%s"}' % D2, '{"fork", "call", "rb"}',
                           "VIEW View\nINVARIANT Agree\n")}
    # (quick tier: the control for D1 is the workflow-level one below)
    for d in ctx.pick((D2,), (D1, D2)):
        res = expect_violation(run_tlc("seq/Handles.tla", ctl[d], ctx.scratch, workers=4, timeout=600),
                               "Agree", f"control: {d} alone")
        ctx.add_tlc(res)
    # (c) workflow level: every edit/revert history
    winv = ("VIEW WView\nINVARIANT AgreeF\nINVARIANT NeverReplayInvalidF\nINVARIANT AsBuiltUnlessFired\n"
            "INVARIANT OnlyForkEdge\nPROPERTY NoFastRevertF\n")
    # (quick tier: the invariants are checked in the generator runs of section 5)
    for stages, nruns in ctx.pick([], [(3, 3), (2, 4)]):
        wres = expect_clean(run_tlc("seq/HandlesWf.tla", wf_cfg("WSpec", ALL_DEV, stages, nruns, winv),
                                    ctx.scratch, workers=ctx.pick(4, "auto"), timeout=1500),
                            f"HandlesWf invariants ({stages} stages, {nruns} runs)")
        ctx.add_tlc(wres)
        _dbg(ctx, f"workflow model {stages} stages {nruns} runs: {wres.distinct} states")
    res = expect_violation(run_tlc("seq/HandlesWf.tla",
                                   wf_cfg("WSpec", '{"%s"}' % D1, 2, 3, "VIEW WView\nINVARIANT NeverReplayInvalidA\n"),
                                   ctx.scratch, workers=4, timeout=600),
                           "NeverReplayInvalidA", "control: replay of an invalidated state through " + D1)
    ctx.add_tlc(res)
    if not ctx.quick:
        # what-if control: if a job rolled back only when it succeeds, a run that fails after its side effect
        # would leave the old result valid and the next run would replay it
        res = expect_violation(run_tlc("seq/HandlesWf.tla",
                                       wf_cfg("WSpec", '{"NoRollbackOnFailure"}', 2, 3,
                                              "VIEW WView\nINVARIANT NeverReplayInvalidA\n"),
                                       ctx.scratch, workers=4, timeout=600),
                               "NeverReplayInvalidA", "control: rollback only on success replays an invalidated state")
        ctx.add_tlc(res)
    ctx.note("deviations", {KEYS[d]: WHAT[d] for d in (D1, D2)})
    _dbg(ctx, "model checking done")

    # ---- 2. spec -> code: exhaustive tree of short behaviours ----------------------------------
    backend = new_backend()
    stats: dict = {}
    g = run_tlc("seq/Handles_Gen.tla",
                handles_cfg("GSpec", one, K1, UK, ctx.pick(C1, C2), 3, 3, ALL_DEV, SH_ALL, ""),
                ctx.scratch, workers=4, timeout=900)
    ctx.require(g.ok, f"Handles_Gen exhaustive failed: {g.error} {g.violated}")
    ctx.add_tlc(g)
    behs = g.recs("BEH")
    ctx.require(len(behs) > 200, f"too few behaviours from TLC: {len(behs)}")
    for n, b in enumerate(behs):
        replay_behaviour(ctx, rep, backend, b, f"x{n}", "tlc-exhaustive-3", stats)
        ctx.count_eval()
        ctx.count_impl_trace()
    _dbg(ctx, f"exhaustive tree replayed: {len(behs)}")
    ctx.sample({"source": "tlc-exhaustive", "behaviour": [s["op"] for s in behs[len(behs) // 2]]})

    # ---- 3. spec -> code: long simulated behaviours ---------------------------------------------
    nsim = ctx.pick(80, 700)
    depth = ctx.pick(6, 8)
    scfg = handles_cfg("GSpec", two, K1, UK, C2, 4, depth, ALL_DEV, SH_MID, "")
    sres = run_tlc("seq/Handles_Gen.tla", scfg, ctx.scratch, workers=1, simulate=f"num={nsim}",
                   depth=depth + 2, seed=ctx.seed + 1, timeout=1500)
    ctx.require(sres.error is None and not sres.violated, f"simulate failed: {sres.error} {sres.violated}")
    ctx.add_tlc(sres)
    sbehs = sres.recs("BEH")
    ctx.require(len(sbehs) > nsim // 2, f"too few simulated behaviours: {len(sbehs)}")
    for n, b in enumerate(sbehs):
        replay_behaviour(ctx, rep, backend, b, f"s{n}", f"tlc-simulate-{depth}", stats)
        ctx.count_eval()
        ctx.count_impl_trace()
    _dbg(ctx, f"simulated behaviours replayed: {len(sbehs)}")
    ctx.sample({"source": "tlc-simulate", "behaviour": [s["op"] for s in sbehs[0]]})
    ctx.note("backend_replay_stats", stats)
    ctx.note("asbuilt_drift", stats.get("ok-drift", 0))

    # ---- 4. code -> spec: random executions validated by TLC -------------------------------------
    ntr = ctx.pick(120, 800)
    traces = [gen_random_trace(ctx.rng, backend, f"r{n}", ctx.rng.randint(6, 16)) for n in range(ntr)]
    # the minimal histories of the two deviations (TLC's counterexamples of the control runs), executed on
    # the real backend and judged by TLC like every other trace
    A, B = ["w"], ["w", ["f", "1"]]
    C = B + [["c", "c1"]]
    E = C + [["f", "1"]]
    X = A + [["f", "a"]]
    adv = lambda ps, c, fresh=(): {"n": "adv", "ps": ps, "c": c, "fresh": list(fresh)}  # noqa: E731
    rb = lambda h: {"n": "rb", "ps": [], "c": h, "fresh": []}  # noqa: E731
    for n, ops in enumerate([[adv([X], X + [["f", "a"]], [X]), rb(A)],
                             [adv([A], B), adv([B], C), adv([C], E), rb(A), adv([C], E), rb(A)]]):
        w = World(backend, f"wit{n}")
        traces.append([{"op": op, "obs": sorted(w.apply(op), key=tkey)} for op in ops])
    # negative control: drop one state from one observed valid set; TLC must flag exactly that step
    src = next(t for t in traces if len(t) >= 5 and len(t[3]["obs"]) >= 2)
    bad = copy.deepcopy(src)
    bad[3]["obs"] = bad[3]["obs"][1:]
    traces.append(bad)
    verdicts = validate_traces(ctx, traces, "random")
    nc = verdicts[len(traces)]
    ctx.negative_control(nc[0] == 4 and not nc[1],
                         "a recorded trace with one valid state dropped at step 4 must be rejected at step 4, "
                         "unexplained by any as-built machine")
    tstats: dict = {}
    for tid in range(1, len(traces)):
        tr = traces[tid - 1]
        ctx.count_eval()
        ctx.count_impl_trace()
        if any(len(tr[i]["obs"]) < len(tr[i - 1]["obs"]) for i in range(1, len(tr))):
            ctx.distinct([s["op"] for s in tr])
        judge_trace(rep, tr, verdicts[tid], "random-trace", tstats)
    _dbg(ctx, f"traces validated: {len(traces)}")
    ctx.note("trace_stats", tstats)
    ctx.sample({"source": "recorded-trace", "trace": traces[0][:5]})

    # ---- 5. workflow histories through a real Scheduler -------------------------------------------
    wbehs = []
    for stages, nr, sim in ctx.pick([(2, 3, None), (3, 3, "num=20")], [(3, 3, None)]):
        wg = run_tlc("seq/HandlesWf_Gen.tla", wf_cfg("WGSpec", ALL_DEV, stages, nr, winv.split("VIEW WView\n")[1]),
                     ctx.scratch,
                     workers=1 if sim else 4, simulate=sim, depth=nr + 3 if sim else None,
                     seed=(ctx.seed + 2) if sim else None, timeout=900)
        ctx.require(wg.error is None and not wg.violated, f"HandlesWf_Gen failed: {wg.error} {wg.violated}")
        ctx.add_tlc(wg)
        wbehs += wg.recs("WBEH")
    ctx.require(len(wbehs) >= 250, f"too few workflow behaviours: {len(wbehs)}")
    # classes to sample from: histories on which the as-built model leaves the reference (dev_h); histories
    # in which a run fails after its side effect and a later run executes a stage ONLY because the failed
    # job had rolled its start state back before it ran (fail_h: the what-if system W differs); the rest
    def differs(w, a, b):
        return any(r[a] != r[b] for r in w["runs"])

    dev_h = [w for w in wbehs if differs(w, "exA", "exF")]
    fail_h = [w for w in wbehs if differs(w, "exW", "exF") and not differs(w, "exA", "exF")]
    plain_h = [w for w in wbehs if not differs(w, "exA", "exF") and not differs(w, "exW", "exF")]
    ctx.require(len(fail_h) >= 20, f"too few histories that need the rollback of a failed job: {len(fail_h)}")
    ctx.rng.shuffle(dev_h)
    ctx.rng.shuffle(fail_h)
    ctx.rng.shuffle(plain_h)
    three = [w for w in wbehs if len(w["kinds"]) == 3][: ctx.pick(10, 0)]
    chosen = (dev_h[: ctx.pick(4, 50)] + fail_h[: ctx.pick(6, 60)] + plain_h[: ctx.pick(4, 70)]
              + [w for w in three if w not in dev_h[:4] and w not in fail_h[:6]])
    ctx.note("workflow_history_classes", {"asbuilt_differs": len(dev_h), "needs_rollback_of_failed_job": len(fail_h),
                                          "other": len(plain_h)})
    sched = new_scheduler()
    wstats: dict = {}
    for n, wb in enumerate(chosen):
        run_workflow_history(ctx, rep, sched, wb, f"h{n}", "tlc-workflow", wstats)
        ctx.count_eval()
        ctx.count_impl_trace()
    _dbg(ctx, f"workflow histories run: {len(chosen)}")
    ctx.note("workflow_stats", wstats)
    ctx.sample({"source": "tlc-workflow", "history": chosen[0]})
    # negative control at workflow level: a flipped expectation must be rejected by the comparison
    probe = Reporter(ctx)
    probe.report = lambda *a, **k: None  # type: ignore
    flipped = run_workflow_history(ctx, probe, sched, plain_h[-1], "neg", "negative-control", {}, flip=True)
    ctx.negative_control(flipped == "viol", "a workflow history with the expected executions of the last run "
                                            "complemented must be rejected")
    ctx.note("violation_counts", rep.count)


def replay(ctx: Ctx, rec: dict) -> None:
    r = rec["replay"]
    rep = Reporter(ctx)
    if "behaviour" in r:
        replay_behaviour(ctx, rep, new_backend(), r["behaviour"], "replay", "replay", {})
    elif "trace" in r:
        backend = new_backend()
        w = World(backend, "replay")
        tr = [{"op": s["op"], "obs": sorted(w.apply(s["op"]), key=tkey)} for s in r["trace"]]
        verdicts = validate_traces(ctx, [tr], "replay")
        judge_trace(rep, tr, verdicts[1], "replay", {})
    elif "wf" in r:
        run_workflow_history(ctx, rep, new_scheduler(), r["wf"], "replay", "replay", {})
    else:
        run(ctx)
