"""
C26  Context is inherited and overridden as documented.

Spec: spec/eval/Eval.tla -- MergeN (redun.utils.merge_dicts, n-ary, grouped by key), CtxLookup
(get_context_value), and EvCall: a job's context = parent's context deep-merged with the call's
update_context override; root context = configured context merged with the context given to run();
arguments are evaluated in the parent's context, expression-valued defaults in the new job's.
Eval_CtxGen enumerates (configured context, run context, chain of 0-2 per-level overrides incl. "no
override", dotted path of 1-3 segments) over a universe of 6 nested contexts and prints what every job
of the chain must observe three ways (get_context in the body, through a child call, through a default
argument); TLC also checks algebraic laws of the merge on all pairs (MergeLaws).
Binding: spec -> code each printed case runs on the real Scheduler (controlled loop, a sample on the
real thread executor) with the real config/run contexts; code -> spec seeded random deeper chains with
richer contexts are executed, recorded and judged by TLC (Eval_Oracle).
"""

from __future__ import annotations

import copy
import json

from ..core import Ctx
from ..tlc import run_tlc
from .. import evallab as EL
from .c01 import admits

META = {
    "level": "model_checking",
    "level_text": "TLC enumerates the context universe x override chains x paths (17,388 cases; quick runs "
                  "a stride sample, thorough all) with the model's expected observations and checks merge "
                  "laws on all pairs; every sampled case and seeded deeper random chains are executed on "
                  "the real scheduler and compared / judged by TLC.",
    "level_note": "update_context(ctx, **kwargs) three-way merges are not generated (only the documented "
                  "parent (+) override shape); context values are ints and nested string-keyed dicts.",
    "technique": "explicit TLA+ semantics (merge, lookup, inheritance) evaluated by TLC; spec->code case "
                 "replay and code->spec outcome validation",
    "rule": "a case is (configured ctx, run ctx, override chain, path); distinct by its JSON; non-trivial = "
            "at least one of configured ctx / run ctx / overrides is non-empty",
}


def _nontrivial(c) -> bool:
    ovs = c["e"]["args"][1]["v"]["v"]
    return bool(c["ctx"]["v"] or c["run"]["v"] or any(o["t"] == "dict" and o["v"] for o in ovs))


def rand_ctx(rng, depth=2):
    d = {}
    for k in rng.sample(["a", "b", "c"], rng.randint(0, 3)):
        if depth > 0 and rng.random() < 0.5:
            d[k] = rand_ctx(rng, depth - 1)
        else:
            d[k] = rng.randint(1, 9)
    return d


def run(ctx: Ctx) -> None:
    ctx.assume("context values are JSON-like (ints, nested string-keyed dicts)")
    total = 6 * 6 * 57 * 9
    stride = ctx.pick(67, 3)
    cfg = (f"SPECIFICATION Spec\nCONSTANT Stride = {stride}\nCONSTANT Offset = {1 + ctx.seed % stride}\n"
           "INVARIANT MergeLaws\nCHECK_DEADLOCK FALSE\n")
    res = run_tlc("eval/Eval_CtxGen.tla", cfg, ctx.scratch, workers=1, timeout=2400, heap="6g")
    ctx.require(res.error is None and not res.violated, f"Eval_CtxGen failed: {res.error} {res.violated}\n{res.out[-1500:]}")
    ctx.add_tlc(res)
    cases = res.recs("CASE")
    ctx.require(len(cases) >= total // stride - 2, f"too few cases: {len(cases)}")
    ctx.note("universe_cases", total)
    ctx.note("cases_run", len(cases))
    if stride <= 3:
        ctx.note("exhaustive", False)
    real_every = ctx.pick(25, 40)
    for n, c in enumerate(cases):
        expr = EL.build(c["e"])
        cfgctx, runctx = EL.from_value(c["ctx"]), EL.from_value(c["run"])
        if n % real_every == 0:
            obs = EL.run_real(expr, context=runctx, config_ctx=cfgctx)
            mode = "real"
        else:
            obs = EL.run_sim(expr, ctx.rng, context=runctx, config_ctx=cfgctx)
            mode = "sim"
        ctx.count_eval()
        ctx.count_impl_trace()
        if _nontrivial(c):
            ctx.distinct([mode, c["e"], c["ctx"], c["run"]])
        if not admits(c["outs"], obs):
            ctx.violation(f"[{mode}] contexts observed {json.dumps(obs)[:400]} but the model requires "
                          f"{json.dumps(c['outs'])[:400]} (configured {cfgctx}, run {runctx})",
                          {"e": c["e"], "ctx": c["ctx"], "run": c["run"], "mode": mode, "obs": obs, "outs": c["outs"]})
    mid = cases[len(cases) // 2]
    ctx.sample({"source": "Eval_CtxGen", "configured": mid["ctx"], "run": mid["run"],
                "overrides": mid["e"]["args"][1]["v"], "path": mid["e"]["args"][2]["v"], "expected": mid["outs"]})

    # ---- code -> spec: deeper random chains ----------------------------------------------------------
    rcases = []
    for i in range(ctx.pick(120, 1500)):
        n = ctx.rng.randint(1, 4)
        ovs = [None if ctx.rng.random() < 0.25 else rand_ctx(ctx.rng) for _ in range(n)]
        path = [ctx.rng.choice(["a", "b", "c"]) for _ in range(ctx.rng.randint(1, 4))]
        cfgctx, runctx = rand_ctx(ctx.rng), rand_ctx(ctx.rng)
        e = EL.call("clvl", EL.V(n), EL.V(ovs), EL.V(path), EL.V(-5))
        obs = EL.run_sim(EL.build(e), ctx.rng, context=runctx, config_ctx=cfgctx)
        rcases.append({"id": i + 1, "e": e, "ctx": EL.to_value(cfgctx), "run": EL.to_value(runctx), "obs": obs})
    # several runs on ONE Scheduler object: the root context of every run is the configured context merged with
    # the context given to THAT run (each run is judged on its own by the model)
    for i in range(ctx.pick(40, 400)):
        cfgctx = rand_ctx(ctx.rng)
        runs, metas = [], []
        for k in range(ctx.rng.randint(2, 3)):
            n = ctx.rng.randint(0, 2)
            ovs = [None if ctx.rng.random() < 0.4 else rand_ctx(ctx.rng) for _ in range(n)]
            path = [ctx.rng.choice(["a", "b", "c"]) for _ in range(ctx.rng.randint(1, 3))]
            # a different default per run keeps the calls of successive runs apart (no cache hits across runs)
            e = EL.call("clvl", EL.V(n), EL.V(ovs), EL.V(path), EL.V(-5 - k - 10 * i))
            rc = None if ctx.rng.random() < 0.35 else rand_ctx(ctx.rng)
            runs.append((EL.build(e), rc))
            metas.append((e, rc))
        for (e, rc), obs in zip(metas, EL.run_sim_seq(runs, ctx.rng, config_ctx=cfgctx)):
            rcases.append({"id": len(rcases) + 1, "e": e, "ctx": EL.to_value(cfgctx), "run": EL.to_value(rc or {}), "obs": obs})
    # siblings under one parent: same path and default, different overrides (and none)
    for i in range(ctx.pick(60, 600)):
        ovs = [None if ctx.rng.random() < 0.3 else {"a": {"b": ctx.rng.randint(1, 9)}} if ctx.rng.random() < 0.7
               else rand_ctx(ctx.rng) for _ in range(ctx.rng.randint(2, 4))]
        cfgctx, runctx = rand_ctx(ctx.rng), rand_ctx(ctx.rng)
        e = EL.call("cfan", EL.V(ovs))
        obs = EL.run_sim(EL.build(e), ctx.rng, context=runctx, config_ctx=cfgctx)
        rcases.append({"id": len(rcases) + 1, "e": e, "ctx": EL.to_value(cfgctx), "run": EL.to_value(runctx), "obs": obs})
    bad = copy.deepcopy(next(c for c in rcases if c["obs"]["t"] == "list"))
    bad["id"] = len(rcases) + 1
    bad["obs"]["v"][0] = {"t": "int", "v": 424242}
    rcases.append(bad)
    verdicts = EL.judge(ctx, rcases, "ctx")
    ctx.negative_control(not verdicts[bad["id"]][0], "a corrupted observed context value must be rejected")
    for c in rcases[:-1]:
        acc, n, exp = verdicts[c["id"]]
        ctx.count_eval()
        ctx.count_impl_trace()
        ctx.distinct(["rand", c["e"], c["ctx"], c["run"]])
        if not acc:
            ctx.violation(f"[random chain] observed {json.dumps(c['obs'])[:400]}; the model admits "
                          f"{json.dumps(exp)[:400]}", {"e": c["e"], "ctx": c["ctx"], "run": c["run"], "obs": c["obs"]})
    ctx.sample({"source": "random-chain", "case": {k: rcases[0][k] for k in ("e", "ctx", "run", "obs")}})


def replay(ctx: Ctx, rec: dict) -> None:
    r = rec["replay"]
    obs = EL.run_sim(EL.build(r["e"]), ctx.rng, context=EL.from_value(r["run"]), config_ctx=EL.from_value(r["ctx"]))
    v = EL.judge(ctx, [{"id": 1, "e": r["e"], "ctx": r["ctx"], "run": r["run"], "obs": obs}], "replay")
    if not v[1][0]:
        ctx.violation(f"replayed case observed {obs}; admits {v[1][2]}", r)
