"""
C17  Task hashes track code identity.

Spec: spec/common/Hashing.tla (TaskPre / TaskIdentity / TaskLaw: transcription of Task._calc_hash,
get_func_source, wraps_task, Task.options, PartialTask._calc_hash), spec/hash/TaskHash.tla (every
base definition x every edit of up to MaxMut fields), TaskHash_Trace.tla (recorded groups).

  TLC      LawIdeal (without deviations: hash changes iff an identity field changed), AsyncConfined /
           DropConfined / FlatConfined (each named deviation breaks the law only inside its syntactic
           class), LawUnlessDev (as built, the law holds outside those classes); control: LawAsBuilt
           is violated.
  spec->code  every (base, edited) pair becomes real code: generated modules of @task functions
           (def / async def, nested def, stacked decorators, versioned / unversioned, hash_includes
           in both orders, wraps_task wrappers), .options(...) overrides and .partial(...) applied to
           the imported tasks; the real Task.hash equality is compared with the law.
  code->spec  random groups of definitions from a larger universe (3 values per field, longer include
           lists, up to two partial arguments, edits of any number of fields) are generated, imported,
           hashed, recorded as (abstract fields, equality classes) and judged pair by pair by TLC.
"""

from __future__ import annotations

import copy

from ..core import Ctx, MachineryError
from ..hashlaw import Case, GenModules, TagSpy, classes, judge, note_judgement, timed, tlc, write_json
from ..tlc import expect_clean, expect_violation

META = {
    "level": "model_checking",
    "level_text": "TLC checks on every (definition, edited definition) pair of the bounded universe "
                  "(14 fields, 2-7 values each, all edits of up to 2 fields - 3 in the thorough tier - "
                  "from every base) that the pre-image scheme changes the hash iff an identity field "
                  "changed, and that the as-built scheme departs from this only inside three named "
                  "syntactic classes; every pair is materialised as generated, imported @task code and "
                  "the equality of the real Task.hash values compared; random groups from a larger "
                  "universe are recorded and judged by TLC.",
    "level_note": "Hashes are modelled as injective constructors (sha512 collisions, C14 and value "
                  "hashing C16 out of scope); `compat=` tasks (hash = first compat string, documented "
                  "as not implemented) and lambda / class-based callables are not modelled; source "
                  "text is abstracted to (decorator lines, def line, body variant, nested def).",
    "technique": "explicit TLA+ spec + TLC exhaustive check over edit pairs; spec->code materialisation "
                 "of every pair as real modules; code->spec batched validation of recorded equality "
                 "classes by TLC",
    "rule": "a case is a pair (definition, edited definition); distinct = distinct pair of abstract "
            "field vectors; non-trivial = at least one field was edited",
}

DEVS = ["AsyncNoTrim", "OptionsDropIncludes", "FlatConcat"]
KEYS = {"AsyncNoTrim": "async-def-source-not-trimmed",
        "OptionsDropIncludes": "options-drops-hash-includes",
        "FlatConcat": "includes-options-flat-concat"}
FIELDS = ["ns", "name", "kind", "nested", "body", "ver", "defopt", "deco", "inc", "ovr", "wrap", "winc",
          "wbody", "part"]
DEF_FIELDS = ["ns", "name", "kind", "nested", "body", "ver", "defopt", "deco", "inc", "wrap", "winc", "wbody"]
DICT_ATOMS = {"dA": {"tag": "A"}, "dB": {"tag": "B"}, "dC": {"tag": "C"}}
OVR = {1: {"tag": "A"}, 2: {"tag": "B"}, 3: {"tag": "C"}}

HEADER = '''from redun import task
from redun.task import wraps_task

OUT = {}


def passthru(f):
    return f

'''
WRAPPER = '''
def wrap_{wb}(arg):
    @wraps_task(wrapper_name="_w", wrapper_hash_includes=[arg])
    def _wrap(inner_task):
        def do_{wb}(*a, **k):
            return ("{wb}", inner_task.func(*a, **k))

        return do_{wb}

    return _wrap

'''


def freeze(x):
    return tuple(freeze(y) for y in x) if isinstance(x, (list, tuple)) else x


def as_record(vec) -> dict:
    return {f: (list(map(list, v)) if f == "part" else list(v) if f == "inc" else v)
            for f, v in zip(FIELDS, vec)}


def describe_task(vec) -> str:
    t = dict(zip(FIELDS, vec))
    s = ""
    if t["wrap"]:
        s += f"@wrap_{t['wbody']}({t['winc']!r}) "
    s += f"@task(ns={t['ns']}, version={t['ver'] or None}, memory={t['defopt']}, hash_includes={list(t['inc'])}) "
    if t["deco"]:
        s += "@passthru "
    s += f"{'async ' if t['kind'] == 'async' else ''}def {t['name']}: body {t['body']}"
    if t["nested"]:
        s += " + nested def"
    if t["ovr"]:
        s += f" .options(tag={'-ABC'[t['ovr']]})"
    if t["part"]:
        s += " .partial(" + ", ".join((f"{k}=" if k else "") + v for k, v in t["part"]) + ")"
    return s


class World:
    """Materialises abstract task definitions as real, imported redun tasks."""

    CHUNK = 400

    def __init__(self, ctx: Ctx):
        self.gen = GenModules(ctx, "c17")
        self.prefix = f"c17_{ctx.seed}"
        self.defs: dict[tuple, object] = {}
        self.hashes: dict[tuple, str] = {}

    def def_source(self, idx: int, d: dict) -> str:
        inc = "[" + ", ".join(repr(DICT_ATOMS.get(a, a)) for a in d["inc"]) + "]"
        ver = repr(f"v{d['ver']}") if d["ver"] else "None"
        lines = []
        if d["wrap"]:
            lines.append(f"@wrap_{d['wbody']}({d['winc']!r})")
        lines.append(f"@task(namespace={self.prefix + '_' + d['ns']!r}, version={ver}, cache=False, "
                     f"memory={d['defopt']}, hash_includes={inc})")
        if d["deco"]:
            lines.append("@passthru")
        lines.append(f"{'async ' if d['kind'] == 'async' else ''}def {d['name']}(x, y=0):")
        lines.append(f"    r = (x, y, {d['body']!r})")
        if d["nested"]:
            lines += ["    def helper(z):", "        return z", "", "    r = helper(r)"]
        lines.append("    return r")
        lines += ["", "", f"OUT[{idx}] = {d['name']}", "", ""]
        return "\n".join(lines)

    def ensure(self, vecs) -> None:
        """Generate and import modules for all definitions not yet materialised."""
        need = []
        seen = set()
        for v in vecs:
            t = dict(zip(FIELDS, v))
            key = tuple(freeze(t[f]) for f in DEF_FIELDS)
            if key not in self.defs and key not in seen:
                seen.add(key)
                need.append(key)
        for at in range(0, len(need), self.CHUNK):
            chunk = need[at:at + self.CHUNK]
            src = HEADER + "".join(WRAPPER.format(wb=wb) for wb in ("wb1", "wb2", "wb3"))
            for i, key in enumerate(chunk):
                src += self.def_source(i, dict(zip(DEF_FIELDS, key)))
            mod = self.gen.load(src)
            for i, key in enumerate(chunk):
                self.defs[key] = mod.OUT[i]

    def task(self, vec):
        t = dict(zip(FIELDS, vec))
        key = tuple(freeze(t[f]) for f in DEF_FIELDS)
        obj = self.defs[key]
        if t["ovr"]:
            obj = obj.options(**OVR[t["ovr"]])
        if t["part"]:
            pos = [v for k, v in t["part"] if k == ""]
            kw = {k: v for k, v in t["part"] if k != ""}
            obj = obj.partial(*pos, **kw)
        return obj

    def hash(self, vec) -> str:
        k = freeze(vec)
        if k not in self.hashes:
            self.hashes[k] = self.task(vec).hash
        return self.hashes[k]


def describe(c: Case) -> str:
    a, b = c.info["a"], c.info["b"]
    diff = [f for f, x, y in zip(FIELDS, a, b) if freeze(x) != freeze(y)]
    return (f"task hash {'unchanged' if c.real == 's' else 'changed'} although the law says "
            f"{'it must change' if c.law == 'd' else 'it must not'}: edited {diff or 'nothing'}; "
            f"A = {describe_task(a)} | B = {describe_task(b)}")


def prefer(c: Case):
    """Witness choice: collisions first, then few edits, then plain definitions."""
    a, b = (dict(zip(FIELDS, v)) for v in (c.info["a"], c.info["b"]))
    edits = sum(1 for f in FIELDS if freeze(a[f]) != freeze(b[f]))
    fancy = sum(t["wrap"] + t["deco"] + len(t["part"]) + (t["ovr"] > 0) + len(t["inc"]) + t["nested"] + (t["ver"] > 0)
                for t in (a, b))
    return (0 if c.law == "d" else 1, edits, fancy)


def cfg(level: int, maxmut: int, invs) -> str:
    return (f"SPECIFICATION Spec\nCONSTANTS\n BaseLevel = {level}\n MaxMut = {maxmut}\n"
            + "".join(f"INVARIANT {i}\n" for i in invs) + "CHECK_DEADLOCK FALSE\n")


INVS = ["LawIdeal", "AsyncConfined", "DropConfined", "FlatConfined", "LawUnlessDev", "Emit"]


def forward(ctx: Ctx, w: World, level: int, maxmut: int, spy: TagSpy) -> list[Case]:
    res = expect_clean(tlc(ctx, f"edit pairs (BaseLevel={level}, MaxMut={maxmut})", "hash/TaskHash.tla",
                           cfg(level, maxmut, INVS), timeout=3000, long_run=not ctx.quick,
                           workers=ctx.pick(6, 8)), "TaskHash.tla")
    ctx.add_tlc(res)
    recs = res.recs("CASE")
    ctx.require(len(recs) > 1000 and len(recs) == res.distinct,
                f"TaskHash emitted {len(recs)} pairs for {res.distinct} states")
    vecs = [r[0] for r in recs] + [r[1] for r in recs]
    with timed(ctx, "materialise"):
        w.ensure(vecs)
    cases = []
    for b, c, law, vs in recs:
        hb, hc = w.hash(b), w.hash(c)
        cases.append(Case(law, "".join(vs), "s" if hb == hc else "d", {"a": b, "b": c}, "TaskHash pair"))
        ctx.count_eval()
        if freeze(b) != freeze(c):
            ctx.distinct([b, c])
    ctx.count_impl_trace(len(w.hashes))
    # leading tags on the real code
    for vec, h in list(w.hashes.items())[:2000]:
        want = "PartialTask" if dict(zip(FIELDS, vec))["part"] else "Task"
        got = spy.tag_of.get(h)
        if got is None:
            raise MachineryError("hash_struct spy saw no pre-image for a task hash (seam moved)")
        if got != want:
            ctx.violation(f"pre-image of {describe_task(vec)} starts with tag {got!r}, expected {want!r}",
                          {"case": {"a": list(vec), "b": list(vec)}})
            break
    return cases


# ---------------------------------------------------------------------------------------------
BIG = {
    "ns": ["A", "B", "C"], "name": ["f", "g", "h"], "kind": ["def", "async"], "nested": [0, 1],
    "body": ["b1", "b2", "b3"], "ver": [0, 0, 1, 2, 3], "defopt": [1, 2, 3], "deco": [0, 1],
    "ovr": [0, 0, 1, 2, 3], "wrap": [0, 0, 1], "winc": ["w1", "w2", "w3"], "wbody": ["wb1", "wb2", "wb3"],
}
INC_ATOMS = ["i1", "i2", "i3", "dA", "dB"]


def rand_field(rng, f):
    if f == "inc":
        return [rng.choice(INC_ATOMS) for _ in range(rng.choice([0, 1, 2, 2, 3]))]
    if f == "part":
        n = rng.choice([0, 0, 1, 2])
        out, have_y = [], False
        for _ in range(n):
            if not have_y and rng.random() < 0.4:
                out.append(["y", rng.choice(["p1", "p2"])])
                have_y = True
            else:
                out.insert(0, ["", rng.choice(["p1", "p2"])])
        return out
    return rng.choice(BIG[f])


def rand_group(rng) -> list:
    base = [rand_field(rng, f) for f in FIELDS]
    items = [base, copy.deepcopy(base)]
    for _ in range(rng.randint(4, 7)):
        t = copy.deepcopy(rng.choice(items))
        for f in rng.sample(FIELDS, rng.choice([1, 1, 2, 3, 5])):
            i = FIELDS.index(f)
            if f == "inc" and t[i] and rng.random() < 0.4:
                t[i] = list(reversed(t[i]))         # reorder only
            else:
                t[i] = rand_field(rng, f)
        items.append(t)
    return items


def validate_groups(ctx: Ctx, groups: list, what: str):
    f = write_json(ctx.tmp(f"groups_{what}.json"),
                   [{"items": [as_record(v) for v in g["items"]], "cls": g["cls"]} for g in groups])
    res = tlc(ctx, f"recorded groups ({what})", "hash/TaskHash_Trace.tla",
              "SPECIFICATION TSpec\nCHECK_DEADLOCK FALSE\n", env={"TRACE_FILE": str(f)}, timeout=1500)
    if res.error or res.violated:
        raise MachineryError(f"TLC failed on recorded groups ({what}): {res.error} {res.violated}\n{res.out[-2000:]}")
    ctx.add_tlc(res)
    out = {tid: (npairs, bad) for tid, npairs, bad in res.recs("VERDICT")}
    ctx.require(len(out) == len(groups), f"verdicts {len(out)} != groups {len(groups)}")
    return out


def backward(ctx: Ctx, w: World, ngroups: int) -> list[Case]:
    raw = [rand_group(ctx.rng) for _ in range(ngroups)]
    with timed(ctx, "materialise"):
        w.ensure([v for g in raw for v in g])
    groups = []
    for items in raw:
        groups.append({"items": items, "cls": classes([w.hash(v) for v in items])})
        ctx.count_impl_trace()
    # negative control: two definitions that differ in the body of an unversioned plain `def`
    # recorded with one equality class: no deviation subset explains that
    a = ["A", "f", "def", 0, "b1", 0, 1, 0, [], 0, 0, "w1", "wb1", []]
    b = list(a)
    b[FIELDS.index("body")] = "b2"
    groups.append({"items": [a, b], "cls": [1, 1]})
    out = validate_groups(ctx, groups, "random")
    _, badpairs = out[len(groups)]
    ctx.negative_control(len(badpairs) == 1 and "s" not in badpairs[0][4],
                         "a recording that gives two plain tasks with different bodies the same hash must be "
                         "rejected by TaskHash_Trace under every deviation subset")
    cases = []
    for tid in range(1, len(groups)):
        npairs, badpairs = out[tid]
        ctx.count_eval(npairs)
        g = groups[tid - 1]
        if len(set(g["cls"])) > 1:
            ctx.distinct(g["items"])
        for x, y, r, law, vs in badpairs:
            cases.append(Case(law, "".join(vs), r, {"a": g["items"][x - 1], "b": g["items"][y - 1]},
                              "recorded-group"))
    ctx.sample({"source": "recorded group", "items": [describe_task(v) for v in groups[0]["items"]],
                "observed_classes": groups[0]["cls"]})
    ctx.note("recorded_groups", len(groups) - 1)
    return cases


def run(ctx: Ctx) -> None:
    ctx.assume("hash_struct / sha512 are injective on the structures that occur (C14 and collision freedom)",
               "hash_includes values and option values are strings or small dicts (value hashing is C16)",
               "tasks are defined by `def` / `async def` at module level in importable files; `compat=` unused")
    w = World(ctx)
    with TagSpy() as spy:
        with timed(ctx, "forward"):
            cases = forward(ctx, w, 1, 2, spy) if ctx.quick else forward(ctx, w, 2, 2, spy) + forward(ctx, w, 1, 3, spy)
        ctx.require(spy.calls > 0, "hash_struct spy recorded nothing")
        # model-level controls: every deviation alone, and all together, break the law somewhere
        for i, d in enumerate(DEVS):
            n = sum(1 for c in cases if c.vstr[1 << i] != c.law)
            ctx.require(n > 0, f"deviation {d} never departs from the law in the model: not modelled")
            ctx.cov.setdefault("model_pairs_where_deviation_breaks_law", {})[d] = n
        ctx.require(any(c.vstr[-1] != c.law for c in cases), "as-built model never departs from the law")
        if not ctx.quick:
            ctl = tlc(ctx, "control LawAsBuilt", "hash/TaskHash.tla", cfg(1, 1, ["LawAsBuilt"]), workers=2)
            expect_violation(ctl, "LawAsBuilt", "TaskHash.tla LawAsBuilt control")
            ctx.add_tlc(ctl)
        j = judge(ctx, cases, DEVS, KEYS, describe, prefer=prefer)
        note_judgement(ctx, "spec_to_code", j)
        mid = [c for c in cases if c.law == "d"]
        ctx.sample({"source": "TaskHash pair", "A": describe_task(mid[len(mid) // 2].info["a"]),
                    "B": describe_task(mid[len(mid) // 2].info["b"]), "law": "different",
                    "real": mid[len(mid) // 2].real})
        mid = [c for c in cases if c.law == "s" and freeze(c.info["a"]) != freeze(c.info["b"])]
        ctx.sample({"source": "TaskHash pair", "A": describe_task(mid[len(mid) // 3].info["a"]),
                    "B": describe_task(mid[len(mid) // 3].info["b"]), "law": "same",
                    "real": mid[len(mid) // 3].real})
        with timed(ctx, "backward"):
            bcases = backward(ctx, w, ctx.pick(120, 4000))
        jb = judge(ctx, bcases, DEVS, KEYS, describe, prefer=prefer)
        note_judgement(ctx, "code_to_spec", jb)
    c0 = next(c for c in cases if c.law == "d" and c.real == "d")
    ctx.negative_control(Case(c0.law, c0.vstr, "s", c0.info).violates,
                         "an observed hash equality flipped to 'same' for an identity edit violates the law")
    ctx.note("distinct_definitions_imported", len(w.defs))


def replay(ctx: Ctx, rec: dict) -> None:
    r = rec["replay"]
    if "case" not in r:
        return run(ctx)
    w = World(ctx)
    a, b = r["case"]["a"], r["case"]["b"]
    w.ensure([a, b])
    out = validate_groups(ctx, [{"items": [a, b], "cls": classes([w.hash(a), w.hash(b)])}], "replay")
    cases = [Case(law, "".join(vs), o, {"a": a, "b": b}, "replay") for _, _, o, law, vs in out[1][1]]
    judge(ctx, cases, DEVS, KEYS, describe, prefer=prefer)
