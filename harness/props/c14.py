"""
C14  The canonical structure encoding behind every hash is injective.

Spec: spec/common/Bencode.tla transcribes redun/bcoding.py over tagged structures and byte
sequences (Enc = _bencode_to_file, Dec = bdecode as an independent recursive-descent parser, exact
UTF-8 encoder / strict decoder).  TLC checks on a bounded universe (Bencode_Gen.tla): non-encodable
values rejected, Dec(Enc(x)) = canonical x, encoding invariant under str<->utf-8 bytes,
list<->tuple and mapping order, injectivity (counting form on the whole universe, pairwise form +
prefix-freeness on a reduced one).
Binding, both directions:
  spec -> code: every structure of the universe is emitted with Enc / Dec expected by the spec; the
                real bencode / bdecode / hash_struct are run on each and compared.  Every byte
                string over the bencode syntax alphabet up to a length bound is decoded by the
                spec and by the real bdecode (differences there are as-built drift, not C14).
  code -> spec: generated larger structures (unicode, long ints, deep nesting, non-encodables)
                are run through the real functions, recorded, and TLC evaluates Enc / Dec / the
                laws on every recorded (input, output) pair (thousands per TLC run).
"""

from __future__ import annotations

import hashlib
import json

from ..core import Ctx
from ..tlc import expect_clean, expect_violation, run_tlc

META = {
    "level": "model_checking",
    "level_text": "TLC checks rejection of non-encodables, decode(encode(x)) = x up to the allowed "
                  "identifications, invariance under str/bytes, list/tuple and key order, and "
                  "injectivity (counting + pairwise + prefix-freeness) of the transcribed encoder on "
                  "every structure of a bounded universe; the real bencode/bdecode/hash_struct are "
                  "run on every one of them and on thousands of generated larger structures whose "
                  "recorded outputs TLC validates against the spec operators.",
    "level_note": "Injectivity itself is proved by TLC for the bounded universe only (atoms of "
                  "length <= 2-3 over a confusable alphabet, containers of <= 2-3 elements, depth "
                  "<= 3); beyond it the real code is tied to the spec by byte-for-byte conformance. "
                  "Strings are sequences of code points / bytes; sha512 is not modelled (the driver "
                  "checks hash_struct is a function of the encoding). Not covered: non-dict "
                  "Mappings, sets / generators / bytearray (encoded as lists by the code), int "
                  "subclasses, Python int() leniencies ('+', '_', blanks) on malformed input.",
    "technique": "explicit TLA+ spec of encoder/decoder + TLC exhaustive check of the algebraic laws; "
                 "spec->code replay of every enumerated case; code->spec batched validation by TLC",
    "rule": "a case is one tagged structure (or one raw byte string for the decoder run); distinct = "
            "distinct structure; non-trivial = a container with at least one element, or a str/bytes "
            "atom containing a bencode syntax byte (0-9 : e i l d -) or a non-ASCII byte",
}


def report(ctx: Ctx, what: str, replay_obj, key=None) -> None:
    """ctx.violation, but at most 50 replay files per run (the rest is counted in the evidence)."""
    if key is not None or len(ctx.violations) < 50:
        ctx.violation(what, replay_obj, key=key)
    else:
        ctx.cov["violations_not_written"] = ctx.cov.get("violations_not_written", 0) + 1


ERR = [-1]
SYNTAX = set(b"0123456789:eild-")


# ---------------------------------------------------------------------------- value mapping
def to_py(t):
    k, v = t["k"], t["v"]
    if k == "int":
        return v
    if k == "big":
        n = 0
        for d in v[1:]:
            n = n * 10 + d
        return -n if v[0] else n
    if k == "str":
        return "".join(chr(c) for c in v)
    if k == "bytes":
        return bytes(v)
    if k == "list":
        return [to_py(e) for e in v]
    if k == "tuple":
        return tuple(to_py(e) for e in v)
    if k == "dict":
        return {to_py(a): to_py(b) for a, b in v}
    if k == "bool":
        return bool(v)
    if k == "none":
        return None
    if k == "float":
        return 0.5
    raise AssertionError(k)


def from_py(o):
    if isinstance(o, bool):
        return {"k": "bool", "v": int(o)}
    if o is None:
        return {"k": "none", "v": 0}
    if isinstance(o, int):
        if abs(o) < 10**9:
            return {"k": "int", "v": o}
        n, ds = abs(o), []
        while n:
            n, r = divmod(n, 10)
            ds.append(r)
        return {"k": "big", "v": [1 if o < 0 else 0] + ds[::-1]}
    if isinstance(o, str):
        return {"k": "str", "v": [ord(c) for c in o]}
    if isinstance(o, bytes):
        return {"k": "bytes", "v": list(o)}
    if isinstance(o, list):
        return {"k": "list", "v": [from_py(e) for e in o]}
    if isinstance(o, tuple):
        return {"k": "tuple", "v": [from_py(e) for e in o]}
    if isinstance(o, dict):
        return {"k": "dict", "v": [[from_py(a), from_py(b)] for a, b in o.items()]}
    if isinstance(o, float):
        return {"k": "float", "v": 0}
    return {"k": "other", "v": repr(o)}


def real_enc(obj):
    from redun.bcoding import bencode

    try:
        return list(bencode(obj)), None
    except Exception as e:  # "rejected" = any exception
        return ERR, type(e).__name__


def real_dec(bs):
    from redun.bcoding import bdecode

    try:
        r = bdecode(bytes(bs))
    except Exception:
        return {"k": "err", "v": 0}
    return dec_tag(r, top=True)


def dec_tag(r, top=False):
    if r is None:
        return {"k": "end", "v": 0} if top else {"k": "none", "v": 0}
    if isinstance(r, list):
        return {"k": "list", "v": [dec_tag(e) for e in r]}
    if isinstance(r, dict):
        return {"k": "dict", "v": [[dec_tag(a), dec_tag(b)] for a, b in r.items()]}
    return from_py(r)


def nontrivial(t) -> bool:
    k, v = t["k"], t["v"]
    if k in ("list", "tuple", "dict"):
        return len(v) > 0
    if k == "str":
        return any(c > 127 or c in SYNTAX for c in v)
    if k == "bytes":
        return any(c > 127 or c in SYNTAX for c in v)
    return False


def flip(t):
    """str <-> its utf-8 bytes, list <-> tuple (the identifications the property allows)."""
    k, v = t["k"], t["v"]
    if k == "str":
        try:
            return {"k": "bytes", "v": list("".join(map(chr, v)).encode())}
        except UnicodeEncodeError:      # lone surrogate: not encodable anyway
            return t
    if k == "bytes":
        try:
            return {"k": "str", "v": [ord(c) for c in bytes(v).decode()]}
        except UnicodeDecodeError:
            return t
    if k in ("list", "tuple"):
        return {"k": "tuple" if k == "list" else "list", "v": [flip(e) for e in v]}
    if k == "dict":
        return {"k": "dict", "v": [[flip(a), flip(b)] for a, b in reversed(v)]}
    return t


# ---------------------------------------------------------------------------- TLC configs
def gen_cfg(mode: str, ctx: Ctx, dev: str = "", invs=(), tiny: bool = False) -> str:
    q = ctx.quick
    if tiny:
        return ("SPECIFICATION Spec\nCONSTANTS\n"
                f' Deviation = {{{dev}}}\n Mode = "{mode}"\n IntMags = {{1}}\n CPs = {{101, 233}}\n BAlpha = {{101}}\n'
                " MaxAtom = 1\n MaxElems = 1\n ByteAlpha = {48}\n MaxRaw = 1\n"
                + "".join(f"INVARIANT {i}\n" for i in invs) + "CHECK_DEADLOCK FALSE\n")
    return (
        "SPECIFICATION Spec\nCONSTANTS\n"
        f' Deviation = {{{dev}}}\n Mode = "{mode}"\n'
        " IntMags = {0, 1, 10, 999999999}\n"
        + (" CPs = {48, 58, 101, 105, 233}\n BAlpha = {48, 49, 58, 101, 105, 195, 169}\n MaxAtom = 2\n MaxElems = 2\n"
           if q else
           " CPs = {48, 58, 101, 105, 233, 8364}\n BAlpha = {48, 49, 58, 101, 105, 195, 169, 255}\n MaxAtom = 3\n MaxElems = 3\n")
        + " ByteAlpha = {48, 49, 45, 58, 101, 105, 108, 100}\n"
        + f" MaxRaw = {4 if q else 6}\n"
        + "".join(f"INVARIANT {i}\n" for i in invs) + "CHECK_DEADLOCK FALSE\n")


LAW_INVS = ("LawReject", "LawRoundTrip", "LawClass", "LawKeyOrder", "LawInjective")


# ---------------------------------------------------------------------------- generator
def gen_struct(rng, depth: int, allow_bad: bool):
    """Random tagged structure, larger than anything in the TLC universe."""
    r = rng.random()
    if depth <= 0 or r < 0.45:
        a = rng.random()
        if a < 0.25:
            return from_py(rng.choice([0, 1, -1, 10, -10, 255, 10**9 - 1, -(10**9) + 1, 10**9,
                                       -(10**9), 2**31, 2**63, -(2**64) - 1, 10**30 + 7,
                                       rng.randint(-10**12, 10**12), rng.randint(-50, 50)]))
        if a < 0.6:
            n = rng.choice([0, 1, 2, 3, 5, 9, 10, 11, 25, 100, 101])
            alpha = rng.choice(["0123456789:eild-", "abcxyz", "é€\U0001f600a:", "e:1i",
                                "߿ࠀ￿\U00010000\U0010ffff\x00\x7f\x80"])
            return {"k": "str", "v": [ord(rng.choice(alpha)) for _ in range(n)]}
        if a < 0.9:
            n = rng.choice([0, 1, 2, 3, 4, 10, 11, 100])
            alpha = rng.choice([list(b"0123456789:eild-"), list(range(256)), [0xC3, 0xA9, 0xE2, 0x82, 0xAC, 0x65],
                                [0xF0, 0x9F, 0x98, 0x80, 0xED, 0xA0, 0x80, 0xC0, 0xAF, 0xF4, 0x90]])
            return {"k": "bytes", "v": [rng.choice(alpha) for _ in range(n)]}
        if allow_bad:
            return rng.choice([{"k": "bool", "v": 0}, {"k": "bool", "v": 1}, {"k": "none", "v": 0},
                               {"k": "float", "v": 0}, {"k": "str", "v": [97, 0xD800]}])
        return {"k": "int", "v": 7}
    n = rng.choice([0, 1, 2, 3, 4, 6])
    if r < 0.75:
        return {"k": rng.choice(["list", "tuple"]), "v": [gen_struct(rng, depth - 1, allow_bad) for _ in range(n)]}
    kk = rng.choice(["str", "str", "bytes"]) if rng.random() < 0.97 or not allow_bad else "mixed"
    keys, pairs = set(), []
    for _ in range(n):
        kind = kk if kk != "mixed" else rng.choice(["str", "bytes", "int"])
        if kind == "int":
            key = {"k": "int", "v": rng.randint(0, 3)}
        else:
            m = rng.choice([0, 1, 1, 2, 3])
            key = {"k": kind, "v": [rng.choice([48, 49, 58, 100, 101, 105, 122, 195, 169] if kind == "bytes"
                                               else [48, 49, 58, 100, 101, 105, 122, 233, 0x20AC, 0x10000])
                                    for _ in range(m)]}
        # keys must be distinct as Python objects *and* must not collide str / bytes twins
        ident = (key["k"] == "int", bytes(key["v"]) if key["k"] == "bytes" else
                 ("".join(map(chr, key["v"])).encode() if key["k"] == "str" else key["v"]))
        if ident in keys:
            continue
        keys.add(ident)
        pairs.append([key, gen_struct(rng, depth - 1, allow_bad)])
    return {"k": "dict", "v": pairs}


def mutate(rng, t):
    """A structure differing from t in one place (usually not equivalent)."""
    k, v = t["k"], t["v"]
    if k in ("list", "tuple") and v and rng.random() < 0.7:
        i = rng.randrange(len(v))
        return {"k": k, "v": v[:i] + [mutate(rng, v[i])] + v[i + 1:]}
    if k == "dict" and v and rng.random() < 0.7:
        i = rng.randrange(len(v))
        return {"k": k, "v": v[:i] + [[v[i][0], mutate(rng, v[i][1])]] + v[i + 1:]}
    if k in ("str", "bytes"):
        c = rng.random()
        if c < 0.3:
            return flip(t)                                   # equivalent twin
        if c < 0.6 and v:
            return {"k": k, "v": v[:-1]}
        return {"k": k, "v": v + [101]}
    if k == "int":
        return rng.choice([{"k": "int", "v": v + 1}, {"k": "str", "v": [ord(c) for c in str(v)]},
                           {"k": "list", "v": [t]}])
    if k in ("list", "tuple"):
        return rng.choice([flip(t), {"k": k, "v": v + [{"k": "int", "v": 0}]}, {"k": "dict", "v": []}])
    if k == "dict":
        return rng.choice([flip(t), {"k": "list", "v": [e for p in v for e in p]}])
    return {"k": "int", "v": 1}


def sha40(bs) -> str:
    return hashlib.sha512(bytes(bs)).hexdigest()[:40]


# ---------------------------------------------------------------------------- the check
def check_case(ctx: Ctx, x, spec_enc, spec_dec, source: str, hashes: dict) -> None:
    """spec -> code: run the real functions on one emitted case and compare with the spec."""
    obj = to_py(x)
    enc, exc = real_enc(obj)
    ctx.count_eval()
    ctx.count_impl_trace()
    if nontrivial(x):
        ctx.distinct(x)
    rep = {"source": source, "x": x, "spec_enc": spec_enc, "real_enc": enc, "exception": exc}
    if (enc == ERR) != (spec_enc == ERR):
        report(ctx, ("bencode accepted a structure the property says must be rejected"
                       if spec_enc == ERR else f"bencode rejected an encodable structure ({exc})")
                      + f": {obj!r}", rep)
        return
    if enc == ERR:
        return
    if enc != spec_enc:
        report(ctx, f"bencode({obj!r}) = {bytes(enc)!r}, Bencode.tla Enc = {bytes(spec_enc)!r}", rep)
        return
    dec = real_dec(enc)
    if dec != spec_dec:
        report(ctx, f"bdecode(bencode(x)) = {dec} but the canonical form of x is {spec_dec} (x = {obj!r})",
                      dict(rep, real_dec=dec, spec_dec=spec_dec))
    check_hash(ctx, obj, enc, hashes, rep)


def check_hash(ctx: Ctx, obj, enc, hashes: dict, rep) -> None:
    """hash_struct must be a function of the encoding, and separate distinct encodings."""
    from redun.hashing import hash_struct

    h = hash_struct(obj)
    key = bytes(enc)
    if hashes.setdefault(("e", key), h) != h:
        report(ctx, f"hash_struct differs for two structures with the same encoding {key!r}", rep)
    other = hashes.setdefault(("h", h), key)
    if other != key:
        report(ctx, f"hash_struct collision between encodings {other!r} and {key!r}", rep)
    if h != sha40(enc):
        hashes["not_sha512_40"] = hashes.get("not_sha512_40", 0) + 1


def replay_case(ctx: Ctx, x) -> None:
    """Re-run one structure through a one-case TLC validation (used by --replay)."""
    obj = to_py(x)
    enc, _ = real_enc(obj)
    case = {"x": x, "y": x, "enc": enc, "ency": enc, "dec": real_dec(enc) if enc != ERR else {"k": "err", "v": 0}}
    verdicts = validate(ctx, [case], "replay")
    if verdicts[1] != [1, 1, 1, 1, 1]:
        report(ctx, f"recorded (input, output) pair rejected by Bencode_Trace: {verdicts[1]}", {"x": x, "case": case})


def validate(ctx: Ctx, cases: list, what: str) -> dict:
    f = ctx.tmp(f"cases_{what}.json")
    f.write_text(json.dumps(cases))
    cfg = "SPECIFICATION Spec\nCONSTANTS\n Deviation = {}\nINVARIANT Verdict\nCHECK_DEADLOCK FALSE\n"
    # deep (non tail) recursion over long strings: TLC worker threads need a larger Java stack
    res = run_tlc("common/Bencode_Trace.tla", cfg, ctx.scratch, workers=4,
                  env={"TRACE_FILE": str(f), "JAVA_TOOL_OPTIONS": "-Xss256m"},
                  deadlock=False, timeout=1500, heap="8g")
    ctx.require(res.error is None and not res.violated,
                f"TLC failed validating recorded cases ({what}): {res.error} {res.violated}\n{res.out[-2000:]}")
    ctx.add_tlc(res)
    return {v[0]: v[1:] for v in res.recs("VERDICT")}


def run(ctx: Ctx) -> None:
    ctx.assume("structures are built from int, str, bytes, list, tuple, dict (plus bool/None/float as "
               "non-encodable probes); other Iterables/Mappings are out of scope",
               "sha512 is collision free on the cases explored (hash_struct is checked to be a function "
               "of the encoding and to separate distinct encodings)",
               "CPython str/bytes ordering and UTF-8 codec")
    hashes: dict = {}

    # ---- 1. one TLC run: laws on the bounded universe (every case emitted), pairwise injectivity /
    #         prefix-freeness on the reduced universe, decoder run over all short byte strings ---------
    res = expect_clean(run_tlc("common/Bencode_Gen.tla", gen_cfg("all", ctx, invs=LAW_INVS + ("LawPair", "Emit")),
                               ctx.scratch, workers=4, deadlock=False, timeout=2400, heap="8g"),
                       "Bencode.tla laws")
    ctx.add_tlc(res)
    cases = res.recs("CASE")
    ctx.require(len(cases) > 3000, f"emitted only {len(cases)} cases")
    ctx.note("universe_size", len(cases))
    ctx.note("pair_states", res.distinct - len(cases) - len(res.recs("RAW")))
    for c in cases:
        check_case(ctx, c["x"], c["enc"], c["dec"], "tlc-universe", hashes)
    sc = next(c for c in cases if c["x"]["k"] == "dict" and len(c["x"]["v"]) == 2 and c["enc"] != ERR)
    ctx.sample({"source": "tlc-universe", "x": repr(to_py(sc["x"])), "spec_enc": repr(bytes(sc["enc"])),
                "spec_dec": json.dumps(sc["dec"], separators=(",", ":"))})

    # ---- 2. model-level negative control: seeded model defects must break the named laws ----------
    r = run_tlc("common/Bencode_Gen.tla",
                gen_cfg("ctl", ctx, dev='"bool_as_int", "no_sort", "charlen"',
                        invs=("LawReject", "LawKeyOrder", "LawRoundTrip"), tiny=True),
                ctx.scratch, workers=1, deadlock=False, timeout=600, extra=["-continue"])
    ctx.require(r.error is None, f"TLC error in the seeded-defect control: {r.error}")
    ctx.add_tlc(r)
    for inv, dev in (("LawReject", "bool_as_int"), ("LawKeyOrder", "no_sort"), ("LawRoundTrip", "charlen / no_sort")):
        ctx.negative_control(inv in r.violated, f"model with seeded defect '{dev}' violates {inv}")

    # ---- 3. decoder conformance on arbitrary byte strings (as-built drift, not C14) ------------
    raws = res.recs("RAW")
    ctx.require(len(raws) > 4000, f"emitted only {len(raws)} raw byte strings")
    drift = []
    for r in raws:
        d = real_dec(r["b"])
        ctx.count_eval()
        if d != r["dec"]:
            drift.append({"bytes": r["b"], "spec": r["dec"], "real": d})
        elif d["k"] not in ("err", "end") and nontrivial({"k": "bytes", "v": r["b"]}):
            ctx.distinct({"raw": r["b"]})
    ctx.note("raw_decoder_cases", len(raws))
    sr = next(r for r in raws if r["dec"]["k"] == "dict" and r["dec"]["v"])
    ctx.sample({"source": "tlc-raw-bytes", "bytes": repr(bytes(sr["b"])), "spec_dec": json.dumps(sr["dec"], separators=(",", ":"))})
    ctx.note("asbuilt_drift", {"count": len(drift), "first": drift[:3]})
    if drift:
        print(f"[C14] note: bdecode differs from Bencode.tla Dec on {len(drift)} malformed inputs "
              f"(as-built drift, not part of C14), e.g. {drift[0]}")

    # ---- 4. code -> spec: generated larger structures, recorded, validated by TLC -------------
    n = ctx.pick(1200, 20000)
    recs = []
    for _ in range(n):
        x = gen_struct(ctx.rng, ctx.rng.choice([1, 2, 3, 4] if ctx.quick else [1, 2, 3, 4, 5]), allow_bad=ctx.rng.random() < 0.15)
        y = mutate(ctx.rng, x)
        enc, _ = real_enc(to_py(x))
        recs.append({"x": x, "y": y, "enc": enc, "ency": real_enc(to_py(y))[0],
                     "dec": real_dec(enc) if enc != ERR else {"k": "err", "v": 0}})
    # negative controls: one corrupted output byte, one corrupted decoded value
    good = [i for i, r in enumerate(recs) if r["enc"] != ERR and len(r["enc"]) > 4 and r["x"]["k"] in ("list", "dict")]
    ctx.require(len(good) > 10, "generator produced too few encodable containers")
    bad1 = json.loads(json.dumps(recs[good[0]]))
    bad1["enc"][len(bad1["enc"]) // 2] ^= 1
    bad2 = json.loads(json.dumps(recs[good[1]]))
    bad2["dec"] = {"k": "list", "v": [bad2["dec"]]}
    recs += [bad1, bad2]
    verdicts = validate(ctx, recs, "generated")
    ctx.require(len(verdicts) == len(recs), f"verdicts {len(verdicts)} != cases {len(recs)}")
    ctx.negative_control(verdicts[len(recs) - 1][0] == 0, "one flipped bit in a recorded encoding must be rejected by TLC")
    ctx.negative_control(verdicts[len(recs)][1] == 0,
                         "a corrupted recorded decoding must be rejected by TLC")
    nrej = 0
    for i, r in enumerate(recs[:-2], start=1):
        v = verdicts[i]
        ctx.count_eval()
        ctx.count_impl_trace()
        if nontrivial(r["x"]):
            ctx.distinct(r["x"])
        nrej += r["enc"] == ERR
        if v[0] != 1:
            report(ctx, f"recorded bencode output is not Enc(x) for x = {to_py(r['x'])!r}: "
                          f"{bytes(r['enc']) if r['enc'] != ERR else 'raised'}", {"x": r["x"], "case": r})
        elif v[1] != 1:
            report(ctx, f"recorded bdecode(bencode(x)) is not the canonical form of x = {to_py(r['x'])!r}: {r['dec']}",
                          {"x": r["x"], "case": r})
        elif v[2] != 1:
            ctx.require(False, f"a law of Bencode.tla fails on a generated structure (specification defect): {r['x']}")
        elif v[3] != 1:
            ctx.require(False, f"PairOK fails in the model for {r['x']} / {r['y']} (specification defect)")
        elif v[4] != 1:
            report(ctx, f"recorded bencode output is not Enc(y) for y = {to_py(r['y'])!r}", {"x": r["y"], "case": r})
        # v[3] (model: equal encodings iff equivalent, prefix-free) together with v[0] and v[4] (the real
        # bytes of x and y are the model's) gives the pairwise law for the real encoder on this pair
    ctx.note("generated_cases", n)
    ctx.note("generated_rejected", nrej)
    ctx.sample({"source": "generated (validated by TLC)", "x": repr(to_py(recs[good[2]]["x"]))[:600],
                "real_enc": repr(bytes(recs[good[2]]["enc"]))[:600]})

    # ---- 5. real-code spot checks on the generated cases that need no model ---------------------
    from redun.hashing import hash_struct

    for r in recs[: ctx.pick(1000, 10000)]:
        if r["enc"] == ERR:
            continue
        obj = to_py(r["x"])
        twin = to_py(flip(r["x"]))
        et, _ = real_enc(twin)
        if et != ERR and (et != r["enc"] or hash_struct(twin) != hash_struct(obj)):
            report(ctx, f"encoding / hash changes under str<->bytes, list<->tuple or key order: {obj!r} vs {twin!r}",
                          {"x": r["x"], "twin": flip(r["x"])})
        check_hash(ctx, obj, r["enc"], hashes, {"x": r["x"]})
    ctx.note("hash_struct_is_sha512_40_of_encoding", hashes.get("not_sha512_40", 0) == 0)


def replay(ctx: Ctx, rec: dict) -> None:
    r = rec["replay"]
    if "x" in r:
        replay_case(ctx, r["x"])
        if "y" in r:
            replay_case(ctx, r["y"])
    else:
        run(ctx)
