"""
C35  Configuration survives conversion to a dictionary and back.

Spec: spec/seq/Config.tla transcribes redun/config.py over texts = sequences of code points:
ExtendedInterpolation._interpolate_some statement by statement ($$, ${opt}, ${sect:opt}, depth
limit, the environment taking precedence at the first level only), _parse_sections (dotted names,
prefix conflicts in both orders), get_config_dict (flattening of [DEFAULT], config_dir
replacement), read_dict with before_set validation.  TLC checks on a bounded universe
(Config_Gen.tla): the contract (dollars re-escaped) round-trips every well-formed configuration; the
as-built model fails exactly when an effective value contains a literal dollar (named deviation
DollarNotReescaped); the replacement rewrites exactly the values containing the directory.
Binding, both directions:
  spec -> code: every configuration of the universe is rendered as INI text and loaded into the
                real Config; construction outcome, visible sections, effective values,
                get_config_dict() with and without replacement, and the round trip are compared with
                what TLC emitted.
  code -> spec: generated larger INI configurations are run through the real class, recorded, and
                TLC evaluates the spec operators and the law on every recorded observation.
"""

from __future__ import annotations

import json
import os
from configparser import SectionProxy

from ..core import Ctx
from ..tlc import expect_clean, expect_violation, run_tlc

META = {
    "level": "model_checking",
    "level_text": "TLC checks the dictionary round trip (same sections, nesting, effective values) and "
                  "the config_dir replacement law on every configuration of a bounded universe, for the "
                  "contract and for the as-built model (which fails exactly through DollarNotReescaped); "
                  "every such configuration and thousands of generated larger ones are loaded into the "
                  "real Config and compared observation by observation, in both directions.",
    "level_note": "Bounded: <= 2 (quick) sections out of s, s.u, t, t.u, s.u.w, options a/b, values from a "
                  "pool of literal / escaped-dollar / reference / bad-syntax texts. Texts are code point "
                  "sequences. Not covered: INI lexing itself (comments, continuation lines, "
                  "whitespace stripping, delimiters: values are rendered so that these do not interfere), "
                  "section names with empty parts (a leading dot is lost by get_config_dict: noted, not "
                  "pursued), environment variables whose value contains '$', non-local config files.",
    "technique": "explicit TLA+ transcription of interpolation / section nesting / dict conversion + TLC "
                 "exhaustive check of the round-trip law; spec->code replay of every enumerated "
                 "configuration; code->spec batched validation by TLC",
    "rule": "a case is one configuration (defaults + ordered sections with raw option values); distinct = "
            "distinct configuration; non-trivial = some raw value contains '$' or the config dir, or a "
            "section name is dotted, or [DEFAULT] is non-empty",
}


def report(ctx: Ctx, what: str, replay_obj, key=None) -> None:
    """ctx.violation, but at most 50 replay files per run (the rest is counted in the evidence)."""
    if key is not None or len(ctx.violations) < 50:
        ctx.violation(what, replay_obj, key=key)
    else:
        ctx.cov["violations_not_written"] = ctx.cov.get("violations_not_written", 0) + 1


KEY = "dollar-not-reescaped"
MISSING = [-1]
ERR_D = [{"name": MISSING, "opts": []}]
LOCAL_DIR, NEW_DIR = "/d", "."
ENV = {"E": "v", "c": "w"}


def T(s: str) -> list:
    return [ord(c) for c in s]


def S(cps) -> str:
    return "".join(map(chr, cps))


# ---------------------------------------------------------------------------- the real side
def setup_env() -> None:
    for k in list(os.environ):
        if len(k) <= 2 and k not in ENV:          # option names of the model must not be in the environment
            del os.environ[k]
    os.environ.update(ENV)
    os.environ["REDUN_CONFIG"] = LOCAL_DIR


def render_ini(cfg: dict) -> str:
    lines = []
    if cfg["defaults"]:
        lines.append("[DEFAULT]")
        lines += [f"{S(k)} = {S(v)}" for k, v in cfg["defaults"]]
    for sec in cfg["sections"]:
        lines.append(f"[{S(sec['name'])}]")
        lines += [f"{S(k)} = {S(v)}" for k, v in sec["opts"]]
    return "\n".join(lines) + "\n"


def sections_of(config) -> dict:
    """Visible sections through the public mapping interface (keys / [])."""
    out: dict = {}

    def rec(path, obj):
        if isinstance(obj, SectionProxy):
            out[path] = obj
            return
        for key in obj.keys():
            shown = key.replace(".", "\u00b7")      # a dot inside one nesting level is not a level boundary
            rec(f"{path}.{shown}" if path else shown, obj[key])

    rec("", config)
    return out


def view_of(config) -> list:
    view = []
    for name, proxy in sections_of(config).items():
        opts = []
        for k in proxy.keys():
            try:
                opts.append([T(k), T(proxy[k])])
            except Exception:
                opts.append([T(k), MISSING])
        view.append({"name": T(name), "opts": opts})
    return view


def tag_dict(d: dict) -> list:
    return [{"name": T(n), "opts": [[T(k), T(v)] for k, v in o.items()]} for n, o in d.items()]


def observe(cfg: dict) -> dict:
    from redun.config import Config

    rec = {"cfg": cfg, "ok": 0, "view": [], "dict": ERR_D, "dictr": ERR_D, "back": ERR_D, "errors": {}}
    c = Config()
    try:
        c.read_string(render_ini(cfg))
    except Exception as e:
        rec["errors"]["read"] = f"{type(e).__name__}: {e}"
        return rec
    rec["ok"] = 1
    rec["view"] = view_of(c)
    try:
        d = c.get_config_dict()
        rec["dict"] = tag_dict(d)
    except Exception as e:
        rec["errors"]["dict"] = f"{type(e).__name__}: {e}"
        d = None
    try:
        rec["dictr"] = tag_dict(c.get_config_dict(replace_config_dir=NEW_DIR))
    except Exception as e:
        rec["errors"]["dictr"] = f"{type(e).__name__}: {e}"
    if d is not None:
        try:
            rec["back"] = view_of(Config(config_dict=d))
        except Exception as e:
            rec["errors"]["back"] = f"{type(e).__name__}: {e}"
    return rec


def as_map(seq) -> object:
    if len(seq) == 1 and seq[0]["name"] == MISSING:
        return "ERR"
    return {S(s["name"]): {S(k): (None if v == MISSING else S(v)) for k, v in s["opts"]} for s in seq}


def nontrivial(cfg: dict) -> bool:
    vals = [S(v) for _, v in cfg["defaults"]] + [S(v) for s in cfg["sections"] for _, v in s["opts"]]
    return bool(cfg["defaults"]) or any("$" in v or LOCAL_DIR in v for v in vals) or \
        any("." in S(s["name"]) for s in cfg["sections"])


def judge(ctx: Ctx, rec: dict, dev: int, source: str, reported: set) -> bool:
    """The property on the real code for one configuration (only if it exists and is readable)."""
    view = as_map(rec["view"])
    if not rec["ok"] or any(v is None for o in view.values() for v in o.values()):
        return True
    if as_map(rec["dict"]) == "ERR":
        report(ctx, f"get_config_dict() raises {rec['errors'].get('dict')} on a configuration whose values are all readable "
                      f"[INI: {render_ini(rec['cfg'])!r}]", {"source": source, "cfg": rec["cfg"], "model_deviation": 0})
        return False
    ok = True
    # "the same sections, nesting": for section names none of which is a dotted prefix of another, the sections of the
    # configuration are exactly the sections of the INI text, each under its full dotted path with its own options
    names = [S(x["name"]) for x in rec["cfg"]["sections"]]
    conflict_free = len(set(names)) == len(names) and not any(
        a != b and (a.startswith(b + ".") or b.startswith(a + ".")) for a in names for b in names)
    if conflict_free and all(n and ".." not in n and not n.startswith(".") and not n.endswith(".") for n in names):
        want = {n: {S(k) for k, _ in x["opts"]} for n, x in zip(names, rec["cfg"]["sections"])}
        got = {n: set(o) for n, o in view.items()}
        if set(got) != set(want) or any(not want[n] <= got[n] for n in want):
            ok = False
            report(ctx, f"the sections of the configuration are not the sections of the INI text: INI has {sorted(want)}, "
                        f"Config shows {sorted(got)} (options per section: INI {{n: sorted(o) for n, o in want.items()}} / "
                        f"Config {{n: sorted(o) for n, o in got.items()}})   [INI: {render_ini(rec['cfg'])!r}]".replace(
                            "{{n: sorted(o) for n, o in want.items()}}", str({n: sorted(o) for n, o in want.items()})).replace(
                            "{{n: sorted(o) for n, o in got.items()}}", str({n: sorted(o) for n, o in got.items()})),
                   {"source": source, "cfg": rec["cfg"], "what": "sections"})
    back = as_map(rec["back"])
    if back == "ERR" or back != view:
        ok = False
        what = (f"Config(config_dict=c.get_config_dict()) raises {rec['errors'].get('back')}" if back == "ERR" else
                f"round trip changes the configuration: {view} -> {back}") + \
            f"   [INI: {render_ini(rec['cfg'])!r}; dict: {as_map(rec['dict'])}]"
        key = KEY if dev else None
        if key is None or key not in reported:
            report(ctx, what, {"source": source, "cfg": rec["cfg"], "model_deviation": dev}, key=key)
        if key:
            reported.add(key)
    d0, d1 = as_map(rec["dict"]), as_map(rec["dictr"])
    bad = d1 == "ERR" or d0.keys() != d1.keys() or any(d0[n].keys() != d1[n].keys() for n in d0)
    if not bad:
        for n in d0:
            for k, v in d0[n].items():
                w = d1[n][k]
                # exactly the rewrite: escaping and everything else of the value stay as in the plain dictionary
                if w != v.replace(LOCAL_DIR, NEW_DIR):
                    bad = True
    if bad:
        ok = False
        report(ctx, f"replace_config_dir must rewrite exactly the values containing {LOCAL_DIR!r} (every occurrence, nothing else): {d0} -> {d1}",
                      {"source": source, "cfg": rec["cfg"], "what": "replace"})
    return ok


def check_case(ctx: Ctx, c: dict, drift: list, hits: list, reported: set, source: str) -> None:
    """spec -> code for one emitted configuration."""
    rec = observe(c["cfg"])
    ctx.count_eval()
    ctx.count_impl_trace()
    if nontrivial(c["cfg"]):
        ctx.distinct(c["cfg"])
    ok = judge(ctx, rec, c["dev"], source, reported)
    if not ok and c["dev"]:
        hits.append(1)
    # conformance with the model: as-built expectation, or the contract's where the model deviates
    conf = rec["ok"] == c["ok"]
    if conf and rec["ok"]:
        conf = as_map(rec["view"]) == as_map(c["view"])
        if conf:
            alt = c["dev"] and ok
            conf = as_map(rec["dict"]) == as_map(c["dictc"] if alt else c["dict"]) and \
                as_map(rec["dictr"]) == as_map(c["dictrc"] if alt else c["dictr"])
    if not conf:
        drift.append({"ini": render_ini(c["cfg"]), "spec": {k: c[k] for k in ("ok", "dev")},
                      "real_view": as_map(rec["view"]), "real_dict": as_map(rec["dict"]), "errors": rec["errors"]})


# ---------------------------------------------------------------------------- generator
PARTS = ["s", "t", "u", "w", "exec"]
KEYS_ = ["a", "b", "k", "m", "c"]


def gen_cfg(rng) -> dict:
    nsec = rng.choice([1, 2, 2, 3, 3, 4, 5])
    names: list = []
    while len(names) < nsec:
        n = ".".join(rng.choice(PARTS) for _ in range(rng.choice([1, 1, 2, 2, 3])))
        if n in names:
            continue
        conflict = any(n.startswith(m + ".") or m.startswith(n + ".") for m in names)
        if conflict and rng.random() < 0.9:
            continue
        names.append(n)
    dkeys = rng.sample(KEYS_[:4], rng.choice([1, 2])) if rng.random() < 0.4 else []
    skel = {n: rng.sample(KEYS_, rng.choice([1, 2, 2, 3])) for n in names}
    wild = rng.random() < 0.25           # some configurations with dangling references / bad syntax
    defaults = [[T(k), T(gen_value(rng, skel, dkeys, None, k, wild, simple=True))] for k in dkeys]
    sections = [{"name": T(n), "opts": [[T(k), T(gen_value(rng, skel, dkeys, n, k, wild))] for k in skel[n]]} for n in names]
    return {"defaults": defaults, "sections": sections}


def gen_value(rng, skel, dkeys, sect, key, wild, simple=False) -> str:
    toks = []
    own = [k for k in (skel.get(sect, []) + dkeys) if k != key]
    for _ in range(rng.choice([0, 1, 1, 2, 2, 3, 4])):
        r = rng.random()
        if r < 0.4 or simple and r < 0.85:
            toks.append(rng.choice(["x", "path", LOCAL_DIR, LOCAL_DIR + "/sub", "/", "a.b", "5%", "%%", "#h", "k=v", ":p",
                                    "a b", "{", "}", "sqlite:///" + LOCAL_DIR + "/redun.db", "d", "/dd"]))
        elif r < 0.55:
            toks.append("$$")
        elif r < 0.75:
            pool = (KEYS_ + ["z", "E"]) if wild or not own else own + ["E"]
            toks.append("${" + rng.choice(pool) + "}")
        elif r < 0.9:
            if wild or not skel:
                toks.append("${" + rng.choice(list(skel) + ["DEFAULT", "nosuch"]) + ":" + rng.choice(KEYS_) + "}")
            else:
                n2 = rng.choice([n for n in skel if n != sect] or list(skel))
                toks.append("${" + n2 + ":" + rng.choice(skel[n2]) + "}")
        elif r < 0.96:
            toks.append("$${" + rng.choice(KEYS_) + "}")
        elif wild:
            toks.append(rng.choice(["$", "${", "${}", "${a:b:c}", "$x"]))
    return "".join(toks).strip()


# ---------------------------------------------------------------------------- TLC
def gen_tlc_cfg(wide_a: bool, wide_b: bool, nnames: int, maxsec: int, invs) -> str:
    return ("SPECIFICATION Spec\nCONSTANTS\n"
            f" WideA = {'TRUE' if wide_a else 'FALSE'}\n WideB = {'TRUE' if wide_b else 'FALSE'}\n"
            f" NNames = {nnames}\n MaxSections = {maxsec}\n"
            + "".join(f"INVARIANT {i}\n" for i in invs) + "CHECK_DEADLOCK FALSE\n")


def validate(ctx: Ctx, recs: list, what: str) -> dict:
    f = ctx.tmp(f"cases_{what}.json")
    f.write_text(json.dumps([{k: r[k] for k in ("cfg", "ok", "view", "dict", "dictr", "back")} for r in recs]))
    cfg = "SPECIFICATION Spec\nINVARIANT Verdict\nCHECK_DEADLOCK FALSE\n"
    res = run_tlc("seq/Config_Trace.tla", cfg, ctx.scratch, workers=4,
                  env={"TRACE_FILE": str(f), "JAVA_TOOL_OPTIONS": "-Xss256m"}, deadlock=False, timeout=1500, heap="8g")
    ctx.require(res.error is None and not res.violated,
                f"TLC failed validating recorded observations ({what}): {res.error} {res.violated}\n{res.out[-2000:]}")
    ctx.add_tlc(res)
    return {v[0]: v[1:] for v in res.recs("VERDICT")}


def run(ctx: Ctx) -> None:
    ctx.assume("the environment visible to interpolation is the one the driver sets (E=v, c=w, REDUN_CONFIG=/d); "
               "no other one- or two-letter variable exists",
               "INI text is rendered one 'key = value' per line without leading/trailing blanks in values",
               "section names have non-empty dot-separated parts",
               "CPython 3.12 configparser")
    setup_env()
    drift: list = []
    hits: list = []
    reported: set = set()

    # ---- 1. model-level control: the as-built model violates the strict round-trip law -----------
    r = expect_violation(run_tlc("seq/Config_Gen.tla", gen_tlc_cfg(False, False, 2, 1, ("LawStrictAsBuilt",)), ctx.scratch,
                                 workers=4, deadlock=False, timeout=600), "LawStrictAsBuilt", "Config.tla as-built strict control")
    ctx.add_tlc(r)
    ctx.negative_control(True, "the as-built model violates the strict round-trip law (only the contract satisfies it)")

    # ---- 2. laws on the universe (contract everywhere, as-built exactly up to the deviation,
    #         replacement law); every configuration emitted and replayed on the real Config ---------
    runs = [(False, False, 4, 2)] if ctx.quick else [(True, True, 5, 1), (True, False, 5, 2), (False, False, 3, 3)]
    all_cases = []
    for wa, wb, nn, ms in runs:
        r = expect_clean(run_tlc("seq/Config_Gen.tla", gen_tlc_cfg(wa, wb, nn, ms, ("Laws", "Emit")), ctx.scratch,
                                 workers=4 if ctx.quick else "auto", deadlock=False, timeout=2400, heap="12g"),
                         f"Config.tla laws (wideA={wa}, wideB={wb}, names={nn}, sections<={ms})")
        ctx.add_tlc(r)
        cases = r.recs("CASE")
        ctx.require(len(cases) > 500, f"emitted only {len(cases)} configurations")
        ctx.note(f"universe_{int(wa)}{int(wb)}_{nn}_{ms}", len(cases))
        for c in cases:
            check_case(ctx, c, drift, hits, reported, f"tlc-universe-{int(wa)}{int(wb)}-{nn}-{ms}")
        all_cases += cases
    ex = next(c for c in all_cases if c["dev"] and len(c["cfg"]["sections"]) == 2 and c["cfg"]["defaults"])
    ctx.sample({"source": "tlc-universe (deviation)", "ini": render_ini(ex["cfg"]), "spec_view": as_map(ex["view"]),
                "spec_dict_as_built": as_map(ex["dict"]), "spec_dict_contract": as_map(ex["dictc"])})
    ex = next(c for c in all_cases if not c["dev"] and c["wf"] and len(c["cfg"]["sections"]) == 2
              and any("$" in S(v) for s in c["cfg"]["sections"] for _, v in s["opts"])
              and as_map(c["dict"]) != as_map(c["dictr"]))
    ctx.sample({"source": "tlc-universe", "ini": render_ini(ex["cfg"]), "spec_dict": as_map(ex["dict"]),
                "spec_dict_replaced": as_map(ex["dictr"])})
    # comparison-level negative control: a flipped expected value must be noticed
    probe = json.loads(json.dumps(next(c for c in all_cases if c["wf"] and not c["dev"] and c["dict"][0]["opts"])))
    probe["dict"][0]["opts"][0][1] = probe["dict"][0]["opts"][0][1] + [33]
    d2: list = []
    check_case(ctx, probe, d2, [], set(), "control")
    ctx.cov["evaluations"] -= 1
    ctx.cov["traces_validated_against_impl"] -= 1
    ctx.negative_control(len(d2) == 1, "a flipped expected dictionary value must be noticed by the comparison")

    # ---- 3. code -> spec: generated larger INI configurations, recorded, validated by TLC ---------
    n = ctx.pick(1500, 15000)
    recs = [observe(gen_cfg(ctx.rng)) for _ in range(n)]
    good = [i for i, r in enumerate(recs) if r["ok"] and as_map(r["dict"]) != "ERR" and as_map(r["back"]) != "ERR"
            and as_map(r["back"]) == as_map(r["view"]) and r["dict"] and r["dict"][0]["opts"]]
    ctx.require(len(good) > 20, f"generator produced too few round-tripping configurations ({len(good)})")
    bad1 = json.loads(json.dumps(recs[good[0]]))
    bad1["back"][0]["opts"][0][1] = bad1["back"][0]["opts"][0][1] + [33]      # the value changed on the way back
    bad2 = json.loads(json.dumps(recs[good[1]]))
    bad2["dict"][0]["opts"][0][1] = bad2["dict"][0]["opts"][0][1] + [33]      # a value the model does not produce
    # (the corrupted value must be one the replacement has no business touching: without the local directory in it)
    g3 = next(i for i in good[2:] if LOCAL_DIR not in S(recs[i]["dict"][0]["opts"][0][1]))
    bad3 = json.loads(json.dumps(recs[g3]))
    bad3["dictr"][0]["opts"][0][1] = [120] + bad3["dictr"][0]["opts"][0][1]   # replacement touched a value
    recs_all = recs + [bad1, bad2, bad3]
    verdicts = validate(ctx, recs_all, "generated")
    ctx.require(len(verdicts) == len(recs_all), f"verdicts {len(verdicts)} != cases {len(recs_all)}")
    ctx.negative_control(verdicts[n + 1][3] == 0, "a recorded round trip with a changed value must fail the law in TLC")
    ctx.negative_control(verdicts[n + 2][1] == 0, "a corrupted recorded dictionary must be rejected by TLC")
    ctx.negative_control(verdicts[n + 3][4] == 0, "a recorded replacement that touched another value must fail the law in TLC")
    nwf = 0
    for i, rec in enumerate(recs, start=1):
        view_ok, dict_ok, repl_ok, law_ok, rlaw_ok, dev = verdicts[i]
        ctx.count_eval()
        ctx.count_impl_trace()
        if nontrivial(rec["cfg"]):
            ctx.distinct(rec["cfg"])
        nwf += bool(rec["ok"] and as_map(rec["dict"]) != "ERR")
        if not (law_ok and rlaw_ok):
            if judge(ctx, rec, dev, "generated", reported):
                ctx.require(False, f"TLC rejects the law on a recorded case that holds on re-examination: {render_ini(rec['cfg'])!r}")
            if dev and not law_ok:
                hits.append(1)
        if not view_ok and law_ok and rlaw_ok:
            # TLC: the Config's view is not the model's view of this INI text although the round trip is self-consistent:
            # decide on the real objects whether the sections of the INI survived (judge's first clause)
            judge(ctx, rec, dev, "generated", reported)
        if not (view_ok and dict_ok and repl_ok):
            drift.append({"ini": render_ini(rec["cfg"]), "verdict": verdicts[i], "real_view": as_map(rec["view"]),
                          "real_dict": as_map(rec["dict"]), "errors": rec["errors"]})
    ctx.sample({"source": "generated (validated by TLC)", "ini": render_ini(recs[good[3]]["cfg"]),
                "real_dict_replaced": as_map(recs[good[3]]["dictr"])})
    ctx.note("generated_cases", n)
    ctx.note("generated_well_formed", nwf)
    ctx.note("deviation_hits", {KEY: len(hits)})
    ctx.note("asbuilt_drift", {"count": len(drift), "first": drift[:3]})
    if drift:
        print(f"[C35] note: the real Config differs from the model Config.tla on {len(drift)} cases where the property "
              f"itself holds (as-built drift), e.g. {json.dumps(drift[0])[:600]}")

    # ---- 3b. values that are rewritten AND carry literal dollars: the forwarded dictionary must read back as the
    #          original configuration with the directory replaced (what a sub-scheduler receives)
    from redun.config import Config as _Config

    for n, val in enumerate([LOCAL_DIR + "/bin/run --price cost$$5", "a$$" + LOCAL_DIR + "$${HOME}", LOCAL_DIR + LOCAL_DIR + "$$$$",
                             "x " + LOCAL_DIR + "/y 100%% $$(date)"]):
        c0 = _Config()
        c0.read_string("[backend]\ndb_uri = sqlite:///" + LOCAL_DIR + "/redun.db\n[scheduler]\nstartup = " + val + "\nplain = p$$q\n")
        want = [{"name": sct["name"], "opts": [[k, T(S(v).replace(LOCAL_DIR, NEW_DIR))] for k, v in sct["opts"]]}
                for sct in view_of(c0)]
        ctx.count_eval()
        try:
            got = view_of(_Config(config_dict=c0.get_config_dict(replace_config_dir=NEW_DIR)))
        except Exception as e:  # noqa
            got = f"{type(e).__name__}: {e}"
        if got != want:
            report(ctx, f"Config(config_dict=c.get_config_dict(replace_config_dir={NEW_DIR!r})) must read back as the configuration with "
                        f"{LOCAL_DIR!r} replaced; startup = {val!r}: expected {as_map(want)}, got {as_map(got) if isinstance(got, list) else got}",
                   {"source": "rewrite-and-dollar", "cfg": {"defaults": [], "sections": [
                       {"name": T("scheduler"), "opts": [[T("startup"), T(val)]]}]}, "what": "replace"})

    # ---- 4. the call site: subrun forwards get_config_dict(replace_config_dir=".") into Config() --
    from redun.config import Config

    c = Config()
    c.read_string("[backend]\ndb_uri = sqlite:///" + LOCAL_DIR + "/redun.db\n[executors.batch]\nimage = repo/img\nprice = cost$$5\n")
    try:
        Config(config_dict=c.get_config_dict(replace_config_dir=NEW_DIR))
        ctx.note("subrun_path_with_literal_dollar", "ok")
    except Exception as e:
        ctx.note("subrun_path_with_literal_dollar", f"{type(e).__name__}: {e}")
        if KEY not in reported:
            report(ctx, f"a config with 'price = cost$$5' cannot be forwarded to a sub-scheduler: {type(e).__name__}: {e}",
                          {"source": "subrun-path", "cfg": {"defaults": [], "sections": [
                              {"name": T("executors.batch"), "opts": [[T("price"), T("cost$$5")]]}]},
                           "model_deviation": 1}, key=KEY)
            reported.add(KEY)


def replay(ctx: Ctx, rec: dict) -> None:
    r = rec["replay"]
    if "cfg" in r:
        setup_env()
        o = observe(r["cfg"])
        v = validate(ctx, [o], "replay")[1]
        if not (v[3] and v[4]):
            judge(ctx, o, v[5], "replay", set())
    else:
        run(ctx)
