"""
C02  Cached executions return what an uncached run would return.

Two specifications carry it:
 * spec/cache/Cache.tla -- histories of runs interleaved with edits (body edit, version bump of a
   versioned task, revert), root-argument changes and input-file rewrites (and reverts), over a program
   with a catch form, a lazy sum and a file-reading task; the run action threads the Evaluation table
   and catch()'s private table through a recursive evaluator.  Invariant CachedEqFresh; the as-built
   deviation CatchReplayRecover is the only way it fails (OnlyViaDeviation holds; with the deviation
   switched off CachedEqFresh holds).  Every history of MaxSteps steps is emitted and replayed on the
   real scheduler with a generated, re-imported task module and a real file.
 * spec/sched/Scheduler.tla -- the invariant Deterministic over all schedules of multi-run plans with
   edits (calls grammar, single-reduction replay of parents, re-execution of edited leaves), validated
   on recorded executions by the "determ" clause of the contract (shared machinery of C06/C07).
"""

from __future__ import annotations

import importlib.util
import json
import os
import sys

from ..core import Ctx
from ..tlc import expect_clean, expect_violation, run_tlc
from .. import schedlab, simloop

META = {
    "level": "model_checking",
    "level_text": "TLC explores all histories of <= 4 (thorough 5) steps of runs / edits / reverts / "
                  "argument changes / file rewrites and shows cached = fresh except through the named "
                  "deviation; every emitted history is replayed on the real scheduler (shared sqlite "
                  "backend, regenerated module, real file) and each run compared with the fresh value; "
                  "multi-run plans of the scheduler model add all schedules.",
    "level_note": "Fresh is the model's evaluation on empty tables (also cross-checked against a real run "
                  "on an empty backend for a sample); versioned tasks are always bumped together with their "
                  "body (an unbumped body edit is replayed by design); config args are not generated.",
    "technique": "explicit TLA+ history model with threaded cache tables + TLC; spec->code history replay; "
                 "scheduler-model determinism over schedules",
    "rule": "a case is a history (sequence of run/edit/rewrite/arg steps) ending in a run; distinct by the "
            "sequence; non-trivial = at least one edit, rewrite or argument change precedes a run that "
            "follows another run",
}

SRC = '''
import os
from redun import task, File
from redun.scheduler import catch

redun_namespace = "{ns}"
PATH = {path!r}


@task()
def div(a):
    {div}


@task()
def rec(e):
    return {rec}


@task(version="{vincv}")
def vinc(a):
    return a + {vinc}


@task()
def twice(a):
    {twice}


@task()
def cat(f):
    return int(f.read())


@task()
def guard(a):
    {guard}


@task()
def main(a):
    {main}
'''


class Prog:
    def __init__(self, ctx: Ctx, tag: str, kwfile: bool = False):
        self.kwfile = kwfile   # the File is handed to its reader by keyword instead of positionally
        self.dir = ctx.scratch / f"c02_{tag}"
        self.dir.mkdir(parents=True, exist_ok=True)
        self.ns = f"c02_{tag}_{os.getpid()}"
        self.modname = f"c02mod_{tag}_{os.getpid()}"
        self.file = self.dir / "input.txt"
        self.db = simloop.clone_db(ctx.scratch, f"c02_{tag}.db")
        self.body = {t: 1 for t in ("main", "guard", "div", "rec", "twice", "cat", "vinc")}
        self.fver, self.arg = 1, 0
        self.write_file()

    def write_file(self):
        self.file.write_text(str(100 * self.fver))
        os.utime(self.file, (1_000_000 + self.fver, 1_000_000 + self.fver))

    def load(self):
        import linecache

        b = self.body
        src = SRC.format(
            ns=self.ns, path=str(self.file),
            div='raise ZeroDivisionError("boom")' if b["div"] == 1 else "return 42 + a",
            rec="-1" if b["rec"] == 1 else "-2",
            vincv=b["vinc"], vinc=b["vinc"],
            twice="return div(a)" if b["twice"] == 1 else "return vinc(a + a)",
            guard="return catch(div(a), ZeroDivisionError, rec)" if b["guard"] == 1 else "return 5",
            main=("return guard(a) + cat(f=File(PATH))" if self.kwfile else "return guard(a) + cat(File(PATH))")
            if b["main"] == 1 else "return twice(a)")
        # 'cat' has one body; editing it is modelled as a no-op on its result, so add a comment line
        if b["cat"] == 2:
            src = src.replace("    return int(f.read())", "    # edited\n    return int(f.read())")
        path = self.dir / f"{self.modname}.py"
        path.write_text(src)
        linecache.checkcache(str(path))
        spec = importlib.util.spec_from_file_location(self.modname, path)
        mod = importlib.util.module_from_spec(spec)
        sys.modules[self.modname] = mod
        spec.loader.exec_module(mod)
        return mod

    def run(self, fresh: bool = False):
        mod = self.load()
        db = simloop.clone_db(self.dir, "fresh.db") if fresh else self.db
        bk = simloop.open_backend(db)
        try:
            s, d = simloop.make_scheduler(bk, limits={})
            out = simloop.run_controlled(s, d, mod.main(self.arg))
        finally:
            simloop.close_backend(bk)
        if out["outcome"] == "value":
            return out["value"]
        if out["outcome"] == "error":
            return -99
        return out["outcome"]


def replay_history(ctx: Ctx, hist: list, tag: str, check_fresh_for_real: bool, quiet=None,
                   kwfile: bool = False) -> None:
    p = Prog(ctx, tag, kwfile)
    nontrivial, ran, changed = False, False, False
    for i, st in enumerate(hist):
        if st["op"] == "edit":
            p.body[st["t"]] = st["v"]
            changed = True
        elif st["op"] == "rewrite":
            p.fver = st["v"]
            p.write_file()
            changed = True
        elif st["op"] == "arg":
            p.arg = st["v"]
            changed = True
        else:
            got = p.run()
            if ran and changed:
                nontrivial = True
            ran = True
            if check_fresh_for_real:
                real_fresh = p.run(fresh=True)
                ctx.require(real_fresh == st["fresh"],
                            f"model's fresh value {st['fresh']} differs from a real run on an empty backend "
                            f"({real_fresh}) at step {i}: the model of the program is wrong: {hist}")
            if got != st["fresh"]:
                if quiet is not None:
                    quiet.append(i)
                    continue
                key = "catch-replays-recover" if st.get("dev") and got == st["cached"] else None
                ctx.violation(
                    f"run at step {i + 1} returned {got}, an empty backend returns {st['fresh']} "
                    f"(history: {[(s['op'], s.get('t'), s.get('v')) for s in hist[:i + 1]]})",
                    {"history": hist, "at": i, "got": got}, key=key)
            elif got != st["cached"]:
                ctx.cov["asbuilt_drift"] = ctx.cov.get("asbuilt_drift", 0) + 1
    ctx.count_eval()
    ctx.count_impl_trace()
    if nontrivial:
        ctx.distinct(hist)
    try:
        os.unlink(p.db)
    except OSError:
        pass


def run(ctx: Ctx) -> None:
    ctx.assume("task functions are deterministic", "a versioned task's version is bumped with its body",
               "file mtimes are set explicitly (a reverted file has its old hash)")
    steps = ctx.pick(4, 5)
    base = f"SPECIFICATION Spec\nCONSTANT MaxSteps = {steps}\n"
    inv = "VIEW View\nCHECK_DEADLOCK FALSE\n"
    # as built: cached = fresh except through the deviation
    r1 = expect_clean(run_tlc("cache/Cache.tla", base + "CONSTANT UseCatchCache = TRUE\nINVARIANT OnlyViaDeviation\n" + inv,
                              ctx.scratch, workers=8), "Cache.tla OnlyViaDeviation (as built)")
    ctx.add_tlc(r1)
    r2 = expect_violation(run_tlc("cache/Cache.tla", base + "CONSTANT UseCatchCache = TRUE\nINVARIANT CachedEqFresh\n" + inv,
                                  ctx.scratch, workers=4), "CachedEqFresh", "Cache.tla CachedEqFresh fails through the deviation")
    ctx.add_tlc(r2)
    r3 = expect_clean(run_tlc("cache/Cache.tla", base + "CONSTANT UseCatchCache = FALSE\nINVARIANT CachedEqFresh\n" + inv,
                              ctx.scratch, workers=8), "Cache.tla CachedEqFresh without the deviation")
    ctx.add_tlc(r3)
    # behaviours: the full tree of histories (no VIEW: hist is part of the state)
    g = run_tlc("cache/Cache.tla", f"SPECIFICATION Spec\nCONSTANT MaxSteps = 4\nCONSTANT UseCatchCache = TRUE\n"
                "INVARIANT Emit\nCHECK_DEADLOCK FALSE\n", ctx.scratch, workers=4, timeout=900)
    ctx.require(g.error is None and not g.violated, f"Cache.tla Emit failed: {g.error}")
    ctx.add_tlc(g)
    behs = g.recs("BEH")
    ctx.require(len(behs) >= 500, f"too few histories: {len(behs)}")
    ctx.note("histories_emitted", len(behs))
    # always include the witness of the known deviation and every history whose last run is 'dev'
    devs = [b for b in behs if any(s.get("dev") for s in b if s["op"] == "run")]
    # histories in which the deviation changes the answer first (the witness of the open finding)
    devs.sort(key=lambda b: 0 if any(s["op"] == "run" and s.get("dev") and s["cached"] != s["fresh"] for s in b) else 1)

    def interesting(b) -> bool:   # a run, then a change, then another run
        ops = [s["op"] for s in b]
        first = ops.index("run") if "run" in ops else len(ops)
        return any(o != "run" for o in ops[first + 1:]) and ops[-1] == "run" and first < len(ops) - 1

    rest = [b for b in behs if b not in devs]
    ctx.rng.shuffle(rest)
    rest.sort(key=lambda b: 0 if interesting(b) else 1)   # stable: interesting histories first
    ctx.note("histories_run_change_run", sum(1 for b in rest if interesting(b)))
    chosen = devs[: ctx.pick(25, 10000)] + rest[: ctx.pick(260, 100000)]
    ctx.note("histories_replayed", len(chosen))
    ctx.note("histories_with_deviation_in_model", len(devs))
    for i, b in enumerate(chosen):
        replay_history(ctx, b, f"h{i}", check_fresh_for_real=(i % 10 == 0), kwfile=(i % 2 == 1))
    ctx.sample({"source": "Cache.tla", "history": chosen[len(chosen) // 2]})
    # negative control: the comparison must notice a wrong cached answer
    ctl = [{"op": "run", "t": "", "v": 0, "cached": -1, "fresh": 12345, "dev": False}]
    flagged: list = []
    replay_history(ctx, ctl, "ctl", False, quiet=flagged)
    ctx.negative_control(flagged == [0], "a run whose expected fresh value is corrupted must be flagged")
    ctx.cov["evaluations"] -= 1
    ctx.cov["traces_validated_against_impl"] -= 1

    # ---- all schedules of multi-run plans with edits: Scheduler.tla + contract (determ) ---------------
    # curated + random programs, plus the shallow family (run, run again unchanged, edit beneath a shallow task, run:
    # every run registers the tasks again, as a re-imported module does)
    progs = schedlab.make_programs(ctx, ctx.pick(3, 24), "c02") + schedlab.shallow_programs(ctx, ctx.pick(2, 8), "c02s")
    schedlab.suite(ctx, ["determ"], n_random_progs=0, n_sim=ctx.pick(40, 800),
                   n_random_hist=ctx.pick(15, 400), tag="c02", n_reuse=ctx.pick(40, 600), progs=progs)


def replay(ctx: Ctx, rec: dict) -> None:
    r = rec["replay"]
    if "history" in r:
        replay_history(ctx, r["history"], "replay", False)
    else:
        schedlab.replay_record(ctx, rec, ["determ"])
