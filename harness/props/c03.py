"""
C03  Shallow (ultimate-reduction) cache hits respect code changes in the subtree.

Spec: spec/cache/Backend.tla (shared with C22).  The C03 contract is stated on the lookup itself:
`check_cache` may answer ULTIMATE for (task, args) only with a recorded call node whose TRUE
subtree task set -- a ghost variable `tsub` that tracks what really ran beneath every node, shown
by TLC to coincide with the task hashes in the node's Merkle id -- is a subset of the current
registry hashes (`C03Contract`, flag `badhit`).  CallSubtreeTask rows are written in the last
commit of record_call_node, the "node exists" early exit skips them on a retry, put_records
(Import) never creates them; `_get_call_node` accepts an empty recorded set.  TLC: the contract
fails on the as-built model only through the deviation ShallowAcceptsMissingSubtree and holds with
the repair switches.
Binding: as C22 (real crashes and OperationalErrors at the points of the recording run, recovery
runs after editing each task), plus a real transfer of all records into an empty repository through
put_records followed by the same recovery tree.  TLC evaluates the contract on the logged data of
every real run (which node the parent's job ended with, which tasks executed, the registry) and
validates every run and every transfer against the model, CallSubtreeTask rows included.
Both workload variants of Backend.tla are used: in the second one (child prov=False) the parent's
subtree rows are preceded by nested record_value(task) commits, and the model requires them to appear
in ONE commit (a partial, non-empty set would pass the non-empty guard of _get_call_node).
Second model: spec/sched/Scheduler.tla carries the scheduler's side -- the subtree task set a job hands to
its ancestors (`sub`), the recorded nodes (`nodeTab`) and the ultimate-reduction hit -- over every schedule of
run / edit / run / revert / run plans; deviation DevCseSubtree (a CSE-answered job reported only its own
task; repaired by a fix: commit) is kept switchable and TLC shows it breaks Deterministic on program cur15.
"""

from __future__ import annotations

import copy

from .. import cachelab as L
from .. import schedlab
from ..core import Ctx
from ..tlc import expect_violation
from . import c22

META = {
    "level": "model_checking",
    "level_text": "TLC checks on a commit-granularity model of call-node recording, record transfer and "
                  "the shallow lookup that an ULTIMATE hit is only ever served from a node whose true "
                  "subtree task set (ghost) is within the current registry, for every crash/fault point "
                  "of the recording run, with and without import, and every single edit -- up to one "
                  "named as-built deviation, removed by a repair switch. Every scenario is executed on "
                  "the real backend (real process deaths, db_retry, put_records) and every real run is "
                  "validated by TLC against the model including its CallSubtreeTask rows.",
    "level_note": "Two fixed workloads (shallow parent over child over grandchild; the same with the child "
                  "declared prov=False, where record_call_node records the subtree tasks before the "
                  "subtree rows), one injection per history, one edit or edit + revert, sqlite, transfer "
                  "of whole executions only.",
    "technique": "explicit TLA+ spec + TLC exhaustive check; spec->code scenario replay with real "
                 "crash/fault injection and record transfer; code->spec batched trace validation and "
                 "contract evaluation by TLC",
    "rule": "a case is one (injection, import?, recovery history) triple executed on the real backend; "
            "distinct = distinct triple; non-trivial = the injection fired, or records were imported, "
            "or the history contains an edit",
}

FLAGS = ["c03"]
STRICT_PARTS = ["C03Contract"]


def _key(e: dict) -> str:
    return "shallow-hit-after-import" if any(k == "import" for k, _ in e["hist"]) \
        else "shallow-hit-missing-subtree-rows"


KEYMAP = {"ShallowAcceptsMissingSubtree": _key}


def controls(entries: list[dict], traces: list[dict]) -> list[tuple]:
    # dropped commit (chain); prov=False workload: dropped Task commit, partial subtree set
    out = c22.controls(entries, traces)[:1] + c22.variant_controls(entries, traces)
    hit = next((t for e, t in zip(entries, traces)
                if e["scn"] == 0 and e["hist"] == [["run", 0], ["run", 0]]), None)
    if hit is not None:
        t = copy.deepcopy(hit)
        t["reg"] = [1, 2, 1]
        t["fresh"] = "r21"
        out.append((t, lambda v: v["con"]["hitp"] is True and v["con"]["c03"] is False,
                    "a recorded shallow hit of parent presented with an edited child in the registry must "
                    "fail the C03 contract"))
    t2 = next((copy.deepcopy(t) for e, t in zip(entries, traces)
               if e["scn"] == 0 and e["hist"] == [["run", 0]]), None)
    if t2 is not None:
        t2["post"]["Sub"] = [x for x in t2["post"]["Sub"] if x[1] != "G1" or len(x[0]) < 9]
        out.append((t2, lambda v: not v["acc"],
                    "a recording whose parent node lacks the grandchild's CallSubtreeTask row must be "
                    "rejected by Backend_Trace"))
    return out


def run(ctx: Ctx) -> None:
    ctx.assume("two fixed workloads: parent(1) -> child(1) -> grand(11|111), check_valid='shallow' on parent; "
               "the same with child declared prov=False (inherited by grand)",
               "one injection per history, at most one edit; transfer = all executions through put_records",
               "sqlite file database (tmpfs); controlled single-threaded event loop",
               "rows are named through redun's own hash functions (C14/C15/C17 are separate properties)")
    points, npoints, table, jobs, entries, traces = c22.campaign(ctx, True, STRICT_PARTS)
    ctl = controls(entries, traces)
    verdicts, stats = c22.finish(ctx, points, npoints, table, entries, traces, ctl, FLAGS, KEYMAP)
    nhit = sum(1 for v in verdicts if not v.get("imp") and v["con"].get("hitp"))
    nimp = sum(1 for e in entries if e["role"] == "import")
    ctx.note("shallow_hits_observed", nhit)
    ctx.note("imports", nimp)
    ctx.require(nhit > 0 and nimp > 0, "no shallow hit or no import was exercised")
    scheduler_part(ctx)


def _corrupt(t: dict) -> bool:
    if t["hdr"]["mode"] == "real" and t["hdr"]["expect"]["res"] == "ok" and t["evs"][-1].get("outcome") == "value":
        t["hdr"]["expect"] = {"res": "ok", "v": t["hdr"]["expect"]["v"] + 1}
        return True
    return False


def scheduler_part(ctx: Ctx) -> None:
    """The scheduler's side of the subtree task sets (spec/sched/Scheduler.tla: nodeTab, HitUltimate, `sub`):
    which tasks a job reports to its ancestors depends on how it was answered (executed, single reduction,
    CSE, collapse, ultimate reduction), hence on the schedule.  TLC checks Deterministic over every schedule of
    run / edit / run (/ revert / run) plans; behaviours, corner and random schedules are replayed on the real
    scheduler and judged against the reference value."""
    progs = schedlab.shallow_programs(ctx, ctx.pick(3, 16), "c03")
    # the deviation (redun as pinned: a CSE-answered job reports only its own task) breaks exactly this
    devs = schedlab.DEVS.replace("DevCseSubtree = FALSE", "DevCseSubtree = TRUE")
    mc = schedlab.model_check(ctx, progs[:1], dev=False, invariants=["Deterministic"], hang_report=False, devs=devs)
    ctx.add_tlc(expect_violation(mc, "Deterministic", "Scheduler.tla with DevCseSubtree on cur15"))
    r = schedlab.suite(ctx, ["determ", "shallow"], n_random_progs=0, n_sim=ctx.pick(40, 600), n_random_hist=ctx.pick(30, 500),
                       corrupt=_corrupt, tag="c03", progs=progs,
                       need_handlers=("exec", "done", "resolve", "finish"))
    ult = sum(1 for m in r["meta"] if m["prog"]["ns"].startswith("cur15"))
    nhits = sum(1 for t in r["traces"] for e in t["evs"] if e["ev"] == "ult_hit")
    ctx.note("ultimate_hits_judged_by_the_contract", nhits)
    ctx.require(nhits > 0, "no ultimate-reduction hit was observed in the scheduler part")
    ctx.note("scheduler_model_programs", len(progs))
    ctx.require(ult > 0, "the CSE-beneath-shallow program was not replayed")


def replay(ctx: Ctx, rec: dict) -> None:
    r = rec["replay"]
    imp = any(h[0] == "import" for h in r["hist"])

    var = r.get("var", 0)

    def only(jobs):
        inj = r["inj"] if r["inj"].get("kind", "none") != "none" else None
        return [{"id": 0, "var": 0, "inj": None, "edits2": [0, 2], "edits3": [], "with_import": False},
                {"id": 1000, "var": 1, "inj": None, "edits2": [], "edits3": [], "with_import": False},
                {"id": var * 1000 + 1, "var": var, "inj": inj, "edits2": [0, 1, 2, 3], "edits3": [1, 2, 3],
                 "with_import": imp}]

    points, npoints, table, jobs, entries, traces = c22.campaign(ctx, imp, [], jobs_filter=only)
    ctl = controls(entries, traces)
    c22.finish(ctx, points, npoints, table, entries, traces, ctl, FLAGS, KEYMAP)
