"""
C13  Promises settle once and notify every callback exactly once.

Spec: spec/seq/Promise.tla (API-call granularity, synchronous re-entrant notification as mutually
recursive operators).  TLC: invariants + action properties exhaustively on the small config;
OrderStrict violated only through the re-entrant deviation (model-level control).
Binding, both directions:
  spec -> code: every behaviour of Promise_Gen (exhaustive tree for small MaxOps, -simulate for
                long ones) is replayed on redun.promise.Promise with logging callbacks; the
                observation after every call must equal the model's.
  code -> spec: seeded random API sequences are run on the real class, recorded, and validated by
                TLC (Promise_Trace) with every invariant evaluated at every step.
"""

from __future__ import annotations

import json

from ..core import Ctx
from ..tlc import expect_clean, expect_violation, run_tlc

META = {
    "level": "model_checking",
    "level_text": "TLC checks settle-once, exactly-once notification, registration order (up to the "
                  "documented re-entrant deviation), Promise.all and wait_promises contracts on "
                  "every API-call sequence within the bounds; every such sequence (small bound) and "
                  "thousands of longer simulated/random ones are executed on redun.promise and "
                  "compared observation by observation, in both directions.",
    "level_note": "Assumes callbacks drawn from the modelled vocabulary (return/raise/return a "
                  "promise/settle another promise/register on another or the same promise); "
                  "bounded number of promises and calls; CPython single thread.",
    "technique": "explicit TLA+ spec + TLC exhaustive check; spec->code behaviour replay and "
                 "code->spec batched trace validation by TLC",
    "rule": "a case is one API-call sequence; distinct = distinct sequence of (op, handler) "
            "records; non-trivial = at least one callback invocation was observed",
}

H_NONE = {"k": "none", "r": 0, "sk": "ok", "v": 0, "i": 0}


class Err(Exception):
    def __init__(self, v):
        super().__init__(v)
        self.v = v


class World:
    """Interprets model operations on real redun Promise objects."""

    def __init__(self, max_c: int):
        from redun.promise import Promise, wait_promises

        self.Promise, self.wait_promises = Promise, wait_promises
        self.ps: list = []  # index i-1 -> promise i
        self.kind: list[str] = []
        self.nc = 1
        self.max_c = max_c
        self.log: list = []
        self.dev = 0  # not observable from the implementation; filled from the model when replaying

    # value mapping -------------------------------------------------------------------------
    def mapv(self, v):
        if v is None:
            return -1
        if isinstance(v, Err):
            return v.v
        if isinstance(v, self.Promise):
            return self.ps.index(v) + 1
        if isinstance(v, (list, tuple)):
            return [self.mapv(x) for x in v]
        if isinstance(v, int):
            return v
        return repr(v)

    def obs(self):
        st, val = [], []
        for p in self.ps:
            if p.is_pending:
                st.append("pending")
                val.append(0)
            elif p.is_fulfilled:
                st.append("ok")
                val.append(self.mapv(p.value))
            else:
                st.append("err")
                val.append(self.mapv(p.error))
        return [st, val, list(self.log)]

    # handlers ------------------------------------------------------------------------------
    def handler(self, h: dict, cbid: int, side: int):
        k = h["k"]
        if k == "none":
            return None

        def fn(arg):
            self.log.append([cbid, side, self.mapv(arg)])
            if k == "ret":
                return h["v"]
            if k == "id":
                return arg
            if k == "raise":
                raise Err(h["v"])
            if k == "retp":
                return self.ps[h["r"] - 1]
            if k == "settle":
                tgt = self.ps[h["r"] - 1]
                if h["sk"] == "ok":
                    tgt.do_resolve(h["v"])
                else:
                    tgt.do_reject(Err(h["v"]))
                return arg
            if k == "reg":
                if self.nc > self.max_c:
                    return arg
                c = self.nc
                self.nc += 1
                idh = {"k": "id"}
                self.ps[h["r"] - 1].then(self.handler(idh, c, 1), self.handler(idh, c, 0))
                return arg
            raise AssertionError(k)

        return fn

    def apply(self, op: dict):
        self.log = []
        n = op["n"]
        if n == "new":
            self.ps.append(self.Promise())
        elif n == "resolve":
            self.ps[op["p"] - 1].do_resolve(op["v"])
        elif n == "reject":
            self.ps[op["p"] - 1].do_reject(Err(op["v"]))
        elif n == "then":
            c = self.nc
            self.nc += 1
            # the chained promise gets its index before callbacks can run (as in the model);
            # then() creates it first thing, but returns it last: reserve the slot.
            slot = len(self.ps)
            self.ps.append(None)
            src = self.ps[op["p"] - 1]
            q = self._then_with_slot(src, self.handler(op["ok"], c, 1), self.handler(op["err"], c, 0), slot)
            self.ps[slot] = q
        elif n in ("all", "wait"):
            subs = [self.ps[i - 1] for i in op["subs"]]
            slot = len(self.ps)
            self.ps.append(None)
            r = self.Promise.all(subs) if n == "all" else self.wait_promises(subs)
            self.ps[slot] = r
        else:
            raise AssertionError(n)
        return self.obs()

    def _then_with_slot(self, src, ok, err, slot):
        return src.then(ok, err)

    # a placeholder slot may be observed by mapv only through "retp"/"settle" on itself, which the
    # model never generates (handlers only name promises allocated before the call)


def _obs_equal(model_obs, impl_obs) -> bool:
    return model_obs[0] == impl_obs[0] and model_obs[1] == impl_obs[1] and model_obs[2] == impl_obs[2]


def replay_behaviour(ctx: Ctx, beh: list, max_c: int, source: str) -> str:
    """Returns 'ok', 'dev' (compared up to the re-entrant deviation) or 'viol'."""
    w = World(max_c)
    settled: dict[int, tuple] = {}
    nlog = 0
    status = "ok"
    for i, step in enumerate(beh):
        try:
            o = w.apply(step["op"])
        except Exception as e:  # the API must never raise for these calls
            ctx.violation(f"Promise API raised {type(e).__name__}: {e} at call {i + 1}",
                          {"source": source, "behaviour": beh, "at": i}, key=None)
            return "viol"
        nlog += len(o[2])
        mobs = step["obs"]
        if mobs[3] == 1:
            status = "dev"
        if status == "ok":
            if not _obs_equal(mobs, o):
                ctx.violation(
                    f"observation after call {i + 1} ({step['op']['n']}) differs from Promise.tla: "
                    f"model {mobs[:3]} impl {o}",
                    {"source": source, "behaviour": beh, "at": i, "impl_obs": o})
                return "viol"
        # contract checks that need no model: settle once, callbacks at most once
        for idx, (st, v) in enumerate(zip(o[0], o[1])):
            if idx in settled and settled[idx] != (st, v):
                ctx.violation(f"promise {idx + 1} changed after settlement: {settled[idx]} -> {(st, v)}",
                              {"source": source, "behaviour": beh, "at": i})
                return "viol"
            if st != "pending":
                settled[idx] = (st, v)
    if nlog:
        ctx.distinct([s["op"] for s in beh])
    return status


def gen_random_trace(rng, n_ops: int, max_p: int, max_c: int, vals=(1, 2, 3)) -> list:
    """Seeded random API sequence executed on the real class; returns [{op, obs}] as recorded."""
    w = World(max_c)
    trace = []
    kinds: list[str] = []

    def handlers():
        alloc = list(range(1, len(w.ps) + 1))
        settleable = [p for p in alloc if kinds[p - 1] == "plain"]
        hs = [dict(H_NONE), dict(H_NONE, k="id"), dict(H_NONE, k="ret", v=rng.choice(vals)),
              dict(H_NONE, k="raise", v=rng.choice(vals))]
        if alloc:
            hs.append(dict(H_NONE, k="retp", r=rng.choice(alloc)))
            hs.append(dict(H_NONE, k="reg", r=rng.choice(alloc)))
        if settleable:
            hs.append(dict(H_NONE, k="settle", r=rng.choice(settleable),
                           sk=rng.choice(["ok", "err"]), v=rng.choice(vals)))
        return hs

    for _ in range(n_ops):
        alloc = list(range(1, len(w.ps) + 1))
        settleable = [p for p in alloc if kinds[p - 1] == "plain"]
        choices = []
        if len(w.ps) < max_p:
            choices += ["new", "all", "wait"]
            if alloc and w.nc <= max_c:
                choices += ["then"] * 4
        if settleable:
            choices += ["resolve", "reject"] * 2
        if not choices:
            break
        n = rng.choice(choices)
        op = {"n": n, "p": 0, "v": 0, "ok": dict(H_NONE), "err": dict(H_NONE), "subs": []}
        if n in ("resolve", "reject"):
            op["p"], op["v"] = rng.choice(settleable), rng.choice(vals)
        elif n == "then":
            op["p"] = rng.choice(alloc)
            op["ok"], op["err"] = rng.choice(handlers()), rng.choice(handlers())
        elif n in ("all", "wait"):
            op["subs"] = [rng.choice(alloc) for _ in range(rng.randint(0, min(3, len(alloc))))] if alloc else []
        o = w.apply(op)
        if n in ("new", "then", "all", "wait"):
            kinds.append({"all": "all", "wait": "wait"}.get(n, "plain"))
        trace.append({"op": op, "obs": o})
    return trace


def validate_traces(ctx: Ctx, traces: list, max_p: int, max_c: int, what: str):
    """Batch-validate recorded traces with TLC; returns {tid: (accepted, pos)}."""
    f = ctx.tmp(f"traces_{what}.json")
    f.write_text(json.dumps(traces))
    cfg = f"""SPECIFICATION TSpec
CONSTANTS
  MaxP = {max_p}
  MaxC = {max_c}
  MaxOps = 1000
  Vals = {{1, 2, 3}}
INVARIANT ExactlyOnce
INVARIANT NoPendingCallbacksOnSettled
INVARIANT AllOK
INVARIANT WaitOK
PROPERTY TSettleOnce
CHECK_DEADLOCK FALSE
"""
    res = run_tlc("seq/Promise_Trace.tla", cfg, ctx.scratch, workers=1, env={"TRACE_FILE": str(f)},
                  timeout=900)
    if res.error:
        ctx.require(False, f"TLC failed on trace validation ({what}): {res.error}\n{res.out[-2000:]}")
    ctx.add_tlc(res)
    verdicts = {}
    for tid, acc, pos in res.recs("VERDICT"):
        verdicts[tid] = (bool(acc), pos)
    return verdicts, res


def run(ctx: Ctx) -> None:
    ctx.assume("callbacks come from the modelled vocabulary", "single-threaded use of Promise",
               "values are small integers (payload identity, not payload type, is what matters)")

    # ---- 1. model checking ------------------------------------------------------------------
    if ctx.quick:
        cfg = "SPECIFICATION Spec\nCONSTANTS\n MaxP = 3\n MaxC = 3\n MaxOps = 4\n Vals = {1, 2}\nVIEW View\n"
    else:
        cfg = "SPECIFICATION Spec\nCONSTANTS\n MaxP = 4\n MaxC = 3\n MaxOps = 5\n Vals = {1, 2}\nVIEW View\n"
    cfg += ("INVARIANT TypeOK\nINVARIANT ExactlyOnce\nINVARIANT NoPendingCallbacksOnSettled\n"
            "INVARIANT OrderUnlessReentrant\nINVARIANT AllOK\nINVARIANT WaitOK\n"
            "PROPERTY SettleOnce\nPROPERTY AllRejectsAtFirst\nCHECK_DEADLOCK FALSE\n")
    res = expect_clean(run_tlc("seq/Promise.tla", cfg, ctx.scratch, timeout=3000, heap="12g"),
                       "Promise.tla invariants")
    ctx.add_tlc(res)
    ctx.note("model_config", cfg.split("VIEW")[0].replace("\n", " "))
    # model-level control: strict registration order fails exactly through the re-entrant deviation
    res2 = expect_violation(run_tlc("seq/Promise.tla", "Promise_order.cfg", ctx.scratch, workers=4),
                            "OrderStrict", "Promise.tla OrderStrict control")
    ctx.add_tlc(res2)

    # ---- 2. spec -> code: exhaustive tree of short behaviours -------------------------------
    max_p, max_c = 3, 3
    gcfg = (f"SPECIFICATION GSpec\nCONSTANTS\n MaxP = {max_p}\n MaxC = {max_c}\n MaxOps = 3\n"
            " Vals = {1, 2}\nINVARIANT Emit\nCHECK_DEADLOCK FALSE\n")
    g = run_tlc("seq/Promise_Gen.tla", gcfg, ctx.scratch, timeout=900)
    ctx.require(g.ok, f"Promise_Gen exhaustive failed: {g.error} {g.violated}")
    ctx.add_tlc(g)
    behs = g.recs("BEH")
    ctx.require(len(behs) > 1000, f"too few behaviours from TLC: {len(behs)}")
    stats = {"ok": 0, "dev": 0, "viol": 0}
    for b in behs:
        stats[replay_behaviour(ctx, b, max_c, "tlc-exhaustive-3")] += 1
        ctx.count_eval()
        ctx.count_impl_trace()
    ctx.sample({"source": "tlc-exhaustive", "behaviour": behs[len(behs) // 2]})

    # ---- 3. spec -> code: long simulated behaviours ------------------------------------------
    nsim = ctx.pick(1500, 20000)
    depth = ctx.pick(7, 9)
    sp, sc = 6, 5
    scfg = (f"SPECIFICATION GSpec\nCONSTANTS\n MaxP = {sp}\n MaxC = {sc}\n MaxOps = {depth}\n"
            " Vals = {1, 2}\nINVARIANT Emit\nCHECK_DEADLOCK FALSE\n")
    sres = run_tlc("seq/Promise_Gen.tla", scfg, ctx.scratch, workers=1, simulate=f"num={nsim}",
                   depth=depth + 1, seed=ctx.seed + 1, timeout=1500)
    ctx.require(sres.error is None and not sres.violated, f"simulate failed: {sres.error}")
    ctx.add_tlc(sres)
    sbehs = sres.recs("BEH")
    ctx.require(len(sbehs) > nsim // 4, f"too few simulated behaviours: {len(sbehs)}")
    for b in sbehs:
        stats[replay_behaviour(ctx, b, sc, f"tlc-simulate-{depth}")] += 1
        ctx.count_eval()
        ctx.count_impl_trace()
    ctx.sample({"source": "tlc-simulate", "behaviour": sbehs[0]})
    ctx.note("replay_stats", stats)

    # ---- 4. code -> spec: random executions validated by TLC ---------------------------------
    ntr = ctx.pick(400, 4000)
    tp, tc = 10, 8
    traces = [gen_random_trace(ctx.rng, ctx.rng.randint(4, 14), tp, tc) for _ in range(ntr)]
    # negative control: corrupt one observed value in one trace; TLC must reject exactly that one
    import copy

    bad = copy.deepcopy(next(t for t in traces if len(t) >= 4 and any(s["obs"][2] for s in t)))
    k = next(i for i, s in enumerate(bad) if s["obs"][2])
    bad[k]["obs"][2][0][0] += 1  # wrong callback id in the log
    traces.append(bad)
    verdicts, tres = validate_traces(ctx, traces, tp, tc, "random")
    ctx.require(len(verdicts) == len(traces), f"verdicts {len(verdicts)} != traces {len(traces)}")
    ctx.negative_control(not verdicts[len(traces)][0] and verdicts[len(traces)][1] == k + 1,
                         "corrupted callback id in a recorded trace must be rejected at that step")
    for tid in range(1, len(traces)):
        acc, pos = verdicts[tid]
        ctx.count_eval()
        ctx.count_impl_trace()
        tr = traces[tid - 1]
        if any(s["obs"][2] for s in tr):
            ctx.distinct([s["op"] for s in tr])
        if not acc:
            ctx.violation(
                f"recorded execution rejected by Promise_Trace at call {pos}: "
                f"op={tr[pos - 1]['op']} impl_obs={tr[pos - 1]['obs']}",
                {"source": "random-trace", "trace": tr, "at": pos - 1})
    if tres.violated:
        ctx.violation(f"invariant {tres.violated} violated on a recorded execution", {"out": tres.out[-3000:]})
    ctx.sample({"source": "recorded-trace", "trace": traces[0][:6]})

    # ---- 5. the known deviation: re-entrant then ---------------------------------------------
    w = World(5)
    H = lambda **kw: dict(H_NONE, **kw)  # noqa
    for op in [{"n": "new"}, {"n": "then", "p": 1, "ok": H(k="reg", r=1), "err": H()},
               {"n": "then", "p": 1, "ok": H(k="id"), "err": H()}, {"n": "resolve", "p": 1, "v": 1}]:
        full = {"n": op["n"], "p": op.get("p", 0), "v": op.get("v", 0), "ok": op.get("ok", H()),
                "err": op.get("err", H()), "subs": []}
        o = w.apply(full)
    order = [e[0] for e in o[2]]
    ctx.note("reentrant_order_observed", order)
    if order != [1, 2, 3]:
        ctx.violation(f"callbacks ran in order {order}, registration order is [1, 2, 3] "
                      "(then() called on a promise from inside one of its own callbacks)",
                      {"history": "new; then(1, reg(1)); then(1, id); resolve(1)", "order": order},
                      key="reentrant-then-order")


def replay(ctx: Ctx, rec: dict) -> None:
    r = rec["replay"]
    if "behaviour" in r:
        replay_behaviour(ctx, r["behaviour"], 8, "replay")
    elif "trace" in r:
        # re-execute the recorded operations on the current tree and validate the fresh recording
        w = World(8)
        tr = [{"op": s["op"], "obs": w.apply(s["op"])} for s in r["trace"]]
        verdicts, _ = validate_traces(ctx, [tr], 10, 8, "replay")
        if not verdicts[1][0]:
            ctx.violation(f"replayed execution rejected at call {verdicts[1][1]}", {"trace": tr})
    else:
        run(ctx)
