"""
C30  File value hashes track the filesystem.

Spec: spec/seq/FileValues.tla -- a file system (path -> exists / size / mtime / bytes id, directories
as sets of member paths), value objects of the nine classes File / Dir / FileSet, IFile / IDir /
IFileSet, ContentFile / ContentDir / ContentFileSet holding a *recorded* hash, the hash pre-images
transcribed from redun/file.py (FreshHash, Calc), is_valid as coded (IsValid), redun-mediated
operations with a freshness obligation (write / append through File.open, File.copy_to to an
existing or a new object, with skip_if_exists, StagingFile.stage / unstage, Dir.copy_to,
StagingDir.stage / unstage, Dir.mkdir / rmdir), operations without one (File.remove, File.touch,
update_hash, pickle round trip) and environment changes (create / rewrite / truncate / touch /
delete a path, i.e. add or remove a directory member).  The two places where the code as built
leaves the property are named deviations (DevContentMissing, DevDirCopyStale): with both off TLC
proves the strict invariants, with either on it produces the counterexample, and the as-built
model satisfies the invariants "unless that deviation fired".

Binding, both directions:
  spec -> code: every behaviour of FileValues_Gen (an exhaustive tree for a small bound, -simulate
                for longer ones) is executed on the real classes in a scratch directory with
                explicitly set mtimes; after every step obj.hash, obj.is_valid() and the hash of a
                fresh object of the same class and path are compared with the model's, hashes up
                to a bijection per behaviour; the property's own predicates (fresh after an
                obligated operation, valid iff recorded = fresh, nothing raises) are evaluated
                directly on the real objects and decide the keyed findings.
  code -> spec: seeded random longer histories (more objects, directories, contents) are executed
                on the real classes, recorded (hashes interned as small integers) and validated by
                TLC (FileValues_Trace) with the invariants evaluated at every step.
"""

from __future__ import annotations

import copy

from .. import filevalues as fv
from ..core import Ctx, MachineryError
from ..tlc import expect_clean, run_tlc

META = {
    "level": "model_checking",
    "level_text": "TLC checks on every history of <= 5 operations over 2 paths in one directory and over 2 "
                  "directories with one member (thorough; quick: <= 3 operations over 2 directories x 2 "
                  "members, <= 4 on directory objects), two live objects of any of the nine file value "
                  "classes, that after every write / append / copy / stage / unstage / Dir.copy_to / mkdir / "
                  "rmdir through redun the object's recorded hash is the fresh hash, that is_valid is total "
                  "and true exactly when recorded = fresh (always for immutable classes), that the "
                  "ContentFile hash is a function of path and bytes only and the File hash of path, size "
                  "and mtime, and that hashing a missing path is total -- strictly for the repaired model, "
                  "and for the as-built model unless one of two named deviations fired.  Every behaviour "
                  "of small exhaustive trees, simulated longer ones and seeded random longer executions "
                  "are run on the real classes and compared step by step with the model, in both "
                  "directions.",
    "level_note": "Local file system only (S3 / fsspec back ends and ShardedS3Dataset are out of scope); "
                  "flat directories; four contents; mtimes set explicitly (sub-tick rewrites that keep "
                  "size and mtime are outside what a size+mtime hash can see and are modelled as such); "
                  "File.touch / File.remove are modelled as operations without freshness obligation, as "
                  "the statement names written, copied and staged objects; ContentDir is held to the "
                  "as-coded mtime/size member hashes (the statement speaks of content-hashed files).",
    "technique": "explicit TLA+ spec (as-built transcription + contract + named deviations) + TLC "
                 "exhaustive check; spec->code behaviour replay on a scratch directory with controlled "
                 "mtimes; code->spec batched trace validation by TLC",
    "rule": "a case is one history of operations on file value objects and environment changes; distinct "
            "= distinct operation sequence; non-trivial = at least one operation with a freshness "
            "obligation was executed and at least one object was observed invalid at some step",
}

U_ONE_DIR = dict(dirs=["d"], names=["a", "b"])          # 2 paths + 1 directory
U_TWO_DIRS = dict(dirs=["d", "e"], names=["a"])         # 2 directories (Dir.copy_to), 1 member each
U_FULL = dict(dirs=["d", "e"], names=["a", "b"])

STRICT = ["TypeOK", "FreshAfterOp", "ValidIff", "HashTotal"]
UNLESS = ["TypeOK", "FreshAfterOpUnlessDev", "ValidIffUnlessDev", "HashTotalUnlessDev"]


def model_check(ctx: Ctx) -> set:
    common = dict(classes=fv.ALL_CLS, max_objs=2, mtimes=[1, 2])
    if ctx.quick:
        plan = [("as-built", U_FULL, [2, 3], 3), ("repaired", U_ONE_DIR, [1, 2, 3], 3)]
    else:
        plan = [("as-built", U_ONE_DIR, [1, 2, 3], 5), ("as-built", U_TWO_DIRS, [2, 3], 5),
                ("as-built", U_FULL, [2, 3], 3), ("repaired", U_ONE_DIR, [1, 2, 3], 4),
                ("repaired", U_TWO_DIRS, [2, 3], 4)]
    runs = []
    timing: list = []
    witnesses: set = set()
    for kind, u, bts, depth in plan:
        ab = kind == "as-built"
        # as built: the invariants hold unless a named deviation fired; repaired: strictly
        cfg = fv.cfg_text("SpecOps", **u, **common, bytes_=bts, max_ops=depth, dev_cm=ab, dev_dc=ab,
                          invariants=(UNLESS + ["Witness"]) if ab else STRICT + ["HashLawsInit"],
                          properties=["ContentBytesOnly"])
        what = f"{kind} dirs={u['dirs']} names={u['names']} bytes={bts} ops<={depth}"
        res = expect_clean(run_tlc("seq/FileValues.tla", cfg, ctx.scratch, workers=ctx.pick(4, 12),
                                   timeout=2400, heap=ctx.pick("3g", "8g")),
                           f"FileValues.tla {what}")
        ctx.add_tlc(res)
        if ab:
            witnesses |= set(res.recs("WITNESS"))
        else:
            ctx.require(not res.recs("WITNESS"), "the repaired model printed a control witness")
        runs.append(f"{what}: {res.distinct} states, {res.generated} transitions")
        timing.append(round(res.wall_s, 1))
    ctx.note("model_runs", runs)
    ctx.note("model_run_seconds", timing)
    return witnesses


def judge_model_controls(ctx: Ctx, witnesses: set) -> None:
    # model-level controls: in the as-built model TLC reaches states in which the strict invariants
    # are false (printed by Witness), each through its named deviation; the Unless-invariants of the
    # same runs show that they fail through nothing else, the repaired runs that they hold strictly
    for w in ("FreshAfterOp dir-copy-stale", "ValidIff content-missing", "HashTotal content-missing"):
        ctx.negative_control(w in witnesses, f"model control: strict invariant fails in the as-built model ({w})")


def replay_all(ctx: Ctx, rep: fv.Reporter, behs: list, u: dict, source: str, stats: dict) -> None:
    for n, b in enumerate(behs):
        root = ctx.scratch / "w" / f"{source}_{n}"
        info = fv.replay_ops_behaviour(rep, b, root, u["dirs"], u["names"], source)
        fv.cleanup_root(root)
        ctx.count_eval()
        ctx.count_impl_trace()
        stats["behaviours"] += 1
        stats["with_obligation"] += 1 if info["oblig"] else 0
        stats["deviation_fired"] += 1 if info["dev"] else 0
        stats["violating"] += 1 if info["viol"] else 0
        if info["oblig"] and info["invalid"]:
            ctx.distinct([s["op"] for s in b["steps"]])


def run(ctx: Ctx) -> None:
    ctx.assume("local file system; flat directories; contents drawn from four byte strings",
               "mtimes are set explicitly (os.utime inside the write block, a registered FileSystem "
               "subclass stamping copies), never by waiting",
               "hash collisions of the real hash function are excluded (hashes compared up to a bijection)")
    fv.install_controlled_fs()
    fv.quiet_redun()

    phases: dict = {}

    def mark(name: str, _t=[ctx.elapsed()]) -> None:
        phases[name] = round(ctx.elapsed() - _t[0], 1)
        _t[0] = ctx.elapsed()

    # ---- 1. model checking ------------------------------------------------------------------
    witnesses = model_check(ctx)
    mark("model_check")

    # ---- 2. which named deviations does this tree have? (witnesses run on the real code) ------
    dev = fv.probe_deviations(ctx.scratch)
    ctx.note("deviations_present", dev)
    rep = fv.Reporter(ctx)
    if dev["cm"]:
        rep.report("ContentFile('<missing path>').hash", {"kind": "witness", "key": fv.KEY_CM}, fv.KEY_CM)
    if dev["dc"]:
        rep.report("src = Dir(d); dst = Dir(e); dst.hash; write d/a; src.copy_to(dst); dst.hash != Dir(e).hash",
                   {"kind": "witness", "key": fv.KEY_DC}, fv.KEY_DC)
    flags = dict(dev_cm=dev["cm"], dev_dc=dev["dc"])
    stats = {"behaviours": 0, "with_obligation": 0, "deviation_fired": 0, "violating": 0}

    # ---- 3. spec -> code: exhaustive tree ------------------------------------------------------
    if ctx.quick:
        gcfg = fv.cfg_text("GSpecOps", **U_TWO_DIRS, bytes_=[2], mtimes=[1], classes=fv.ALL_CLS, max_objs=2,
                           max_ops=3, **flags, invariants=["Emit"], view=False) + "CONSTRAINT SameFamily\n"
    else:
        gcfg = fv.cfg_text("GSpecOps", **U_TWO_DIRS, bytes_=[2, 3], mtimes=[1, 2], classes=fv.ALL_CLS, max_objs=2,
                           max_ops=3, **flags, invariants=["Emit"], view=False)
    g = run_tlc("seq/FileValues_Gen.tla", gcfg, ctx.scratch, workers=4, timeout=1500, heap="8g")
    ctx.require(g.ok, f"FileValues_Gen exhaustive failed: {g.error} {g.violated}")
    ctx.add_tlc(g)
    behs = sorted(g.recs("BEH"), key=lambda b: fv.json.dumps(b, sort_keys=True))
    ctx.require(len(behs) > 1000, f"too few behaviours from TLC: {len(behs)}")
    mark("tree_tlc")
    replay_all(ctx, rep, behs, U_TWO_DIRS, "tree3", stats)
    mark("tree_replay")
    ctx.sample({"source": "tlc-exhaustive", "ops": [s["op"] for s in behs[len(behs) // 2]["steps"]]})

    # ... and a deeper one over directory objects only (Dir.copy_to / StagingDir need four operations:
    # two objects, a member, the copy)
    dcls = ctx.pick(["Dir"], ["Dir", "ContentDir"])
    dkw = dict(**U_TWO_DIRS, bytes_=[2], mtimes=[1], classes=dcls, max_objs=2, max_ops=4)
    gcfg = fv.cfg_text("GSpecOps", **dkw, **flags, invariants=["Emit"] + UNLESS + ["Witness"], view=False)
    g = run_tlc("seq/FileValues_Gen.tla", gcfg, ctx.scratch, workers=4, timeout=1500, heap="8g")
    ctx.require(g.ok, f"FileValues_Gen exhaustive (directories) failed: {g.error} {g.violated}")
    ctx.add_tlc(g)
    # this run is also the depth-4 model check of the directory operations (as a tree); with the
    # as-built flags it yields the FreshAfterOp witness, otherwise a small as-built run supplies it
    if dev["dc"]:
        witnesses |= set(g.recs("WITNESS"))
    if "FreshAfterOp dir-copy-stale" not in witnesses:
        c = expect_clean(run_tlc("seq/FileValues.tla",
                                 fv.cfg_text("SpecOps", **dkw, dev_cm=True, dev_dc=True, invariants=UNLESS + ["Witness"]),
                                 ctx.scratch, workers=2, timeout=900), "FileValues.tla as built, directories, 4 ops")
        ctx.add_tlc(c)
        witnesses |= set(c.recs("WITNESS"))
    judge_model_controls(ctx, witnesses)
    dbehs = sorted(g.recs("BEH"), key=lambda b: fv.json.dumps(b, sort_keys=True))
    ctx.require(len(dbehs) > 300, f"too few directory behaviours from TLC: {len(dbehs)}")
    mark("tree4_tlc")
    replay_all(ctx, rep, dbehs, U_TWO_DIRS, "tree4dirs", stats)
    mark("tree4_replay")

    # ---- 4. spec -> code: long simulated behaviours ---------------------------------------------
    nsim = ctx.pick(80, 1000)
    depth = ctx.pick(6, 8)
    scfg = fv.cfg_text("GSpecOps", **U_FULL, bytes_=[1, 2, 3, 4], mtimes=[1, 2], classes=fv.ALL_CLS, max_objs=3,
                       max_ops=depth, **flags, invariants=["EmitSim"], view=False)
    sres = run_tlc("seq/FileValues_Gen.tla", scfg, ctx.scratch, workers=1, simulate=f"num={nsim}",
                   depth=depth + 1, seed=ctx.seed + 1, timeout=1500, heap="8g")
    ctx.require(sres.error is None and not sres.violated, f"simulate failed: {sres.error} {sres.violated}")
    ctx.add_tlc(sres)
    sbehs = sres.recs("BEH")
    ctx.require(len(sbehs) >= nsim // 2, f"too few simulated behaviours: {len(sbehs)}")
    mark("sim_tlc")
    replay_all(ctx, rep, sbehs, U_FULL, f"sim{depth}", stats)
    mark("sim_replay")
    ctx.sample({"source": "tlc-simulate", "ops": [s["op"] for s in sbehs[0]["steps"]]})
    ctx.note("replay_stats", stats)

    # ---- 5. code -> spec: random executions validated by TLC -----------------------------------
    ntr = ctx.pick(150, 1500)
    tu = dict(dirs=["d", "e", "g"], names=["a", "b"], bytes_=[1, 2, 3, 4], mtimes=[1, 2, 3])
    traces = []
    for n in range(ntr):
        root = ctx.scratch / "t" / str(n)
        traces.append(fv.record_ops_trace(ctx.rng, root, ctx.rng.randint(6, 14), tu["dirs"], tu["names"],
                                          tu["bytes_"], tu["mtimes"], fv.ALL_CLS, 5))
        fv.cleanup_root(root)
    mark("record_traces")
    # negative controls: flip one is_valid answer; pass a stale recorded hash off as the fresh one
    allt = list(traces)
    ctl1, ctl2 = [], []
    for tid, t in enumerate(traces, 1):
        k1 = next((i for i, s in enumerate(t["steps"]) if i >= 3 and s["obs"]["objs"]), None)
        if k1 is not None and len(ctl1) < 3:
            bad = copy.deepcopy(t)
            o = bad["steps"][k1]["obs"]["objs"][0]
            o["v"] = {"T": "F", "F": "T", "R": "T"}[o["v"]]
            allt.append(bad)
            ctl1.append((tid, len(allt), (0, k1 + 1)))
        k2 = next((i for i, s in enumerate(t["steps"])
                   if s["obs"]["objs"] and s["obs"]["objs"][0]["h"] not in (0, s["obs"]["objs"][0]["f"])
                   and s["obs"]["objs"][0]["f"] != 0), None)
        if k2 is not None and len(ctl2) < 3:
            bad = copy.deepcopy(t)
            bad["steps"][k2]["obs"]["objs"][0]["h"] = bad["steps"][k2]["obs"]["objs"][0]["f"]
            allt.append(bad)
            ctl2.append((tid, len(allt), (0, k2 + 1)))
    verdicts, tres = fv.validate_traces(ctx, allt, "ops", **tu, max_objs=5, **flags, invariants=UNLESS,
                                        properties=["TContentBytesOnly"])
    mark("trace_tlc")
    ctx.note("phase_seconds", phases)
    ctx.require(len(verdicts) == len(allt), f"verdicts {len(verdicts)} != traces {len(allt)}")
    nontriv = 0
    for tid in range(1, len(traces) + 1):
        code, pos = verdicts[tid]
        tr = traces[tid - 1]
        ctx.count_eval()
        ctx.count_impl_trace()
        oblig = any(s["op"]["n"] in ("write", "append", "copy", "stage", "unstage", "dcopy", "dstage",
                                     "dunstage", "mkdir", "rmdir") for s in tr["steps"])
        if oblig and any(o["v"] == "F" for s in tr["steps"] for o in s["obs"]["objs"]):
            ctx.distinct([s["op"] for s in tr["steps"]])
            nontriv += 1
        if code == 2:
            raise MachineryError(f"recorded operation not enabled in FileValues.tla at step {pos}: "
                                 f"{tr['steps'][pos - 1]['op']} (generator and Pre disagree)")
        if code == 0:
            st = tr["steps"][pos - 1]
            rep.report(f"recorded execution rejected by FileValues_Trace at step {pos}: op={st['op']} "
                       f"classes={tr['classes']} observed={st['obs']['objs']} raised={st['obs']['raised']}",
                       {"kind": "trace", "trace": tr, "at": pos - 1, "universe": tu}, None)
    if tres.violated:
        rep.report(f"invariant {tres.violated} violated on a recorded execution", {"out": tres.out[-3000:]}, None)
    ctx.note("recorded_traces", {"n": len(traces), "nontrivial": nontriv})
    ctx.sample({"source": "recorded-trace", "ops": [s["op"] for s in traces[0]["steps"]][:8]})
    fv.judge_controls(ctx, verdicts, ctl1,
                      "a flipped is_valid answer in a recorded execution must be rejected at that step")
    fv.judge_controls(ctx, verdicts, ctl2,
                      "a stale recorded hash passed off as the fresh one must be rejected at that step")
    ctx.note("keyed_occurrences", dict(rep.keyed))


def replay(ctx: Ctx, rec: dict) -> None:
    fv.install_controlled_fs()
    fv.quiet_redun()
    r = rec["replay"]
    rep = fv.Reporter(ctx)
    if r.get("kind") == "ops":
        fv.replay_ops_behaviour(rep, r["behaviour"], ctx.scratch / "replay", r["dirs"], r["names"], "replay")
    elif r.get("kind") == "witness":
        dev = fv.probe_deviations(ctx.scratch)
        if r["key"] == fv.KEY_CM and dev["cm"]:
            rep.report("ContentFile('<missing path>').hash", r, fv.KEY_CM)
        if r["key"] == fv.KEY_DC and dev["dc"]:
            rep.report("Dir.copy_to onto a Dir whose hash was computed before", r, fv.KEY_DC)
    elif r.get("kind") == "trace":
        # re-execute the recorded operations on the current tree and validate the fresh recording
        tu = r["universe"]
        w = fv.World(ctx.scratch / "replay")
        tok = fv.Interner()
        steps = []
        for s in r["trace"]["steps"]:
            exc = w.apply(s["op"])
            obs = w.observe()
            steps.append({"op": s["op"], "obs": {
                "objs": [{"h": tok(o["h"]), "v": o["v"], "f": tok(o["f"])} for o in obs],
                "raised": 1 if exc else 0, "kind": "env", "count": 0, "res": []}})
        dev = fv.probe_deviations(ctx.scratch)
        tr = {"wf": r["trace"]["wf"], "steps": steps}
        verdicts, _ = fv.validate_traces(ctx, [tr], "replay", **tu, max_objs=5, dev_cm=dev["cm"],
                                         dev_dc=dev["dc"], invariants=UNLESS, properties=[])
        if verdicts[1][0] != 1:
            ctx.violation(f"replayed execution rejected at step {verdicts[1][1]}", {"trace": tr})
    else:
        run(ctx)
