"""
C28  Dry runs execute nothing and predict the real run.

Spec: Scheduler.tla with mode = "dry" (DryStop branch of Exec: nothing consumed, nothing submitted,
the loop stops when the queue is empty), plans that interleave dry and real runs with edits;
invariants DrySubmitsNothing and DryPredicts (a completed dry run returns what the next real run on
the same backend returns, which then submits nothing; a dry run that stopped means the real run
submits at least one job).  Sched_Contract "dry" clauses judge the recorded executions the same way:
no submit / finish event in a dry run, and the real run that follows a dry run (same code) agrees
with it.
"""

from __future__ import annotations

from ..core import Ctx
from .. import schedlab

META = {
    "level": "model_checking",
    "level_text": "TLC: DrySubmitsNothing / DryPredicts over all schedules of plans mixing dry and real "
                  "runs against empty, partial (failed), full and edited backends; recorded executions "
                  "validated by TLC against the dry clauses.",
    "level_note": "Task function calls are counted by the controlled executor (nothing else can call "
                  "them); external-value validity (files) is covered by C04, not here.",
    "technique": "explicit TLA+ as-built scheduler model + TLC invariants; contract trace validation of "
                 "driven executions",
    "rule": "a case is (program, plan with at least one dry run, complete schedule); distinct by program "
            "and choice sequence; non-trivial = the plan contains a dry run followed by a real run",
}

ON = ["dry", "determ"]


def _corrupt(t: dict) -> bool:
    if t["hdr"]["prevdry"]["res"] == "value" and t["evs"][-1].get("outcome") == "value":
        t["hdr"]["prevdry"]["val"] += 1      # the real run no longer agrees with the completed dry run
        return True
    if t["hdr"]["mode"] == "dry":
        # a dry run that hands a job to an executor
        names = sorted(t["hdr"]["limits"])
        t["evs"].insert(0, {"ev": "submit", "job": "jX", "key": 99, "optout": 0, "units": {n: 0 for n in names}})
        return True
    return False


def run(ctx: Ctx) -> None:
    ctx.assume("task functions are deterministic", "no external values (files, handles) in results")
    r = schedlab.suite(ctx, ON, n_random_progs=ctx.pick(4, 30), n_sim=ctx.pick(80, 1500),
                       n_random_hist=ctx.pick(40, 800), corrupt=_corrupt, tag="c28")
    ndry = sum(1 for t in r["traces"] if t["hdr"]["mode"] == "dry")
    npred = sum(1 for t in r["traces"] if t["hdr"]["prevdry"]["res"] != "none")
    ctx.note("dry_runs_observed", ndry)
    ctx.note("dry_then_real_pairs", npred)
    ctx.require(ndry >= 10 and npred >= 5, f"too few dry runs explored ({ndry}, {npred})")
    # the same clauses through a sub-scheduler: real run, dry run, real run of subrun(sv(1)) on one backend
    from . import c38

    for ne in (0, 1):
        c38.dry_history(ctx, ne, f"c28d{ne}")


def replay(ctx: Ctx, rec: dict) -> None:
    if "history" in rec["replay"]:
        from . import c38

        c38.dry_history(ctx, rec["replay"]["newexec"], "replay")
        return
    schedlab.replay_record(ctx, rec, ON)
