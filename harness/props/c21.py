"""
C21  Upstream dataflow of arguments is recorded.

Spec: spec/eval/Prov.tla: for every call the expected Argument records are <<key, value, upstream
terms>>: positional arguments keyed by index, keyword and defaulted arguments by name (defaults are
recorded as keyword arguments), the value the task received, and ups(e) = the call terms whose results
flow into the argument expression without crossing another call -- through lazy operators, containers,
cond (evaluated condition and chosen branch), seq, catch (the guarded call, or the recover call whose own
argument derives from the guarded call), map_ (the mapped calls), partial tasks.  Prov_Oracle compares
with the Argument / ArgumentResult rows of real executions.
One call node is recorded once, so its arguments must be those of one of its occurrences.
Deviation DefaultUpstream (open): a defaulted parameter whose default is an expression is recorded with
its value only.  (DevMapUpstream -- map_ results carried no upstream link -- was repaired by a fix:
commit; the oracle runs with it off, so the defect is reported again if it returns.)
"""

from __future__ import annotations

import copy
import json

from ..core import Ctx
from .. import evallab as EL, provlab as PL
from .c20 import collect

META = {
    "level": "model_checking",
    "level_text": "TLC derives expected argument records (keys, values, upstream call terms) from the "
                  "explicit semantics and compares them with the Argument / ArgumentResult rows of real "
                  "executions of seeded programs; the ideal model (no deviation) decides violations, the "
                  "as-built model attributes them to the named deviation.",
    "level_note": "Upstream identity is the structural call term; programs restricted to a single admissible "
                  "outcome; fork/join threads, catch_all and subrun are not generated.",
    "technique": "explicit TLA+ semantics producing the expected dataflow record, evaluated by TLC; "
                 "code->spec validation of database dumps",
    "rule": "a case is one program + schedule; distinct by program JSON; non-trivial = some argument of "
            "some call has a non-empty expected upstream set",
}


def has_default_expr(e) -> bool:
    s = json.dumps(e)
    return '"t": "withdef"' in s or '"t": "ctxdef"' in s or '"t": "chooser"' in s and False


def run(ctx: Ctx) -> None:
    ctx.assume("task functions are deterministic; programs have a single admissible outcome")
    cases = collect(ctx, ctx.pick(60, 900), "c21_")
    big = next(c for c in cases if any(a["ups"] for n in c["obs"] for a in n["args"]))
    c1 = copy.deepcopy(big)
    c1["id"] = len(cases) + 1
    next(a for n in c1["obs"] for a in n["args"] if a["ups"])["ups"].pop()
    payload = [{k: c[k] for k in ("id", "e", "obs", "flags")} for c in cases + [c1]]
    ideal = PL.judge(ctx, payload, "c21_ideal", dev_map=False, dev_default=False)
    asbuilt = PL.judge(ctx, payload, "c21_asbuilt", dev_map=False, dev_default=True)
    ctx.negative_control(not asbuilt[c1["id"]]["args"], "a dropped upstream link must be rejected")
    nontriv = 0
    for c in cases:
        ri, ra = ideal[c["id"]], asbuilt[c["id"]]
        ctx.count_eval()
        ctx.count_impl_trace()
        if any(a["ups"] for n in c["obs"] for a in n["args"]):
            ctx.distinct(c["e"])
            nontriv += 1
        if ri["args"]:
            continue
        key = "default-arg-upstream-missing" if ra["args"] and has_default_expr(c["e"]) else None
        ctx.violation(
            f"recorded arguments differ from the expected dataflow record for program {json.dumps(c['e'])[:300]}: "
            f"nodes with unexpected arguments {json.dumps(ri['diff'][1] if ri['diff'] else None)[:400]}",
            {"e": c["e"], "obs": c["obs"], "diff": ri["diff"]}, key=key)
    ctx.require(nontriv >= 20, f"too few programs with upstream links ({nontriv})")
    ctx.sample({"program": cases[4]["e"], "recorded_nodes": cases[4]["obs"][:3]})


def replay(ctx: Ctx, rec: dict) -> None:
    e = rec["replay"]["e"]
    out, nodes, flags, tree = PL.run_and_read(ctx, e, "replay", ctx.rng)
    v = PL.judge(ctx, [{"id": 1, "e": e, "obs": nodes, "flags": flags}], "replay", False, False)
    if not v[1]["args"]:
        ctx.violation(f"replayed program: argument record differs {v[1]}", rec["replay"])
