"""
C23  Record transfer between repositories preserves the call graph.

Spec: spec/cache/Transfer.tla -- a repository is a set of rows; Children (the get_*_child_edges
ownership functions), Closure (iter_record_ids), Owned (one serialised record), XferAsBuilt
(get_records |> put_records skipping existing primary keys |> _postprocess_new_records), the
contract (rows of every closure record reproduced, tag status, nothing lost, twice adds nothing,
cache lookups never newly served) and a small two-repository world (two workflows, cut / finished
executions, tag add / update / delete, transfers of any execution subset in both directions).
TLC: contract invariants hold with all deviations repaired; each named deviation breaks exactly its
own invariant; the as-built machine keeps all the others.

Binding (code -> spec, Transfer_Trace.tla): repositories written by REAL scheduler runs (values,
lists of Files, job / value / execution tags, tag edits through record_tags(update) / update_tags /
delete_tags, executions cut mid-way, a transfer performed while a workflow is still running, later
executions answered from the cache -- a whole subtree by ultimate reduction of a check_valid=shallow
task, or every job of a repeated run -- and transferred ALONE, so that call nodes without a job of
their own are reachable only through call edges and their tasks only through CallNode -> Task) are
moved with the functions the CLI uses -- RedunClient._sync_records (push / pull), the `redun push`
/ `redun export` / `redun import` commands themselves, and the export/import JSON-lines path -- in
both directions, once and repeated.  Normalised raw-sqlite dumps of source, destination before /
after / after repeating, the record counts returned, and check_cache results observed on the three
repositories are validated by TLC against the contract and against the as-built operator.
"""

from __future__ import annotations

import copy
import hashlib
import io
import json
import sqlite3
from concurrent.futures import ThreadPoolExecutor
from pathlib import Path
from typing import Any, Optional

from ..core import Ctx
from ..tlc import expect_clean, expect_violation, run_tlc

META = {
    "level": "model_checking",
    "level_text": "TLC checks the transfer contract (closure rows reproduced, tag status, nothing lost, "
                  "idempotence, cache-lookup safety) on every history of a two-repository world within "
                  "the bounds, with each as-built deviation shown to break exactly one invariant; real "
                  "transfers between repositories written by real runs (sync, CLI push/export/import, "
                  "both directions, repeated, mid-run) are validated by TLC on normalised row dumps "
                  "against the same contract and the as-built operator.",
    "level_note": "SQLite only; Handle rows, Evaluation rows and values reachable only from them are "
                  "outside the closure by design and not compared; ids are 12-character prefixes; blob "
                  "columns are compared by digest; Execution.updated_time is not serialised (not a "
                  "listed column); the model world has two workflows and one tag key.",
    "technique": "explicit TLA+ spec + TLC (exhaustive small world; batched validation of real "
                 "repository dumps with the spec's operators as oracle)",
    "rule": "a case is one transfer (source history, root set, channel, destination history) and its "
            "repetition; distinct = distinct (source plan, roots as execution indices, channel, "
            "destination plan); non-trivial = the transfer wrote at least one record into a repository "
            "or found records already present",
}

# as built today: ChildOrderUnspecified was repaired in /repo by ff56d8a, EmptySubtreeAccepted by a1120b6
ALL_DEVS = ["StaleJobRowKept", "SubtreeRowsNotTransferred"]
KEY_ORDER = "child-call-order-lost"
KEY_STALE = "resync-keeps-running-job-row"
KEY_SUBTREE = "import-drops-subtree-rows"
ERR = "redun.ErrorValue"


# ------------------------------------------------------------------------------------------------
# normalised dumps (raw sqlite, stable seam: database rows)
# ------------------------------------------------------------------------------------------------
def tok(x) -> str:
    return "~" if x is None else str(x)[:12]


def dig(x) -> str:
    if x is None:
        return "~"
    if isinstance(x, str):
        x = x.encode()
    return hashlib.sha1(x).hexdigest()[:10]


def dump_db(path: Path) -> list[list[str]]:
    c = sqlite3.connect(str(path))
    rows: list[list[str]] = []
    for r in c.execute("select id, args, job_id from execution"):
        rows.append(["Execution", tok(r[0]), dig(r[1]), tok(r[2])])
    for r in c.execute("select id, start_time, end_time, task_hash, cached, call_hash, parent_id, execution_id from job"):
        rows.append(["Job", tok(r[0]), str(r[1]), "~" if r[2] is None else str(r[2]), tok(r[3]),
                     str(int(bool(r[4]))), tok(r[5]), tok(r[6]), tok(r[7])])
    for r in c.execute("select call_hash, task_name, task_hash, args_hash, value_hash, timestamp from call_node"):
        rows.append(["CallNode", tok(r[0]), str(r[1]), tok(r[2]), tok(r[3]), tok(r[4]), str(r[5])])
    edges: dict = {}
    for p, ch, o in c.execute("select parent_id, child_id, call_order from call_edge order by parent_id, call_order, child_id"):
        edges.setdefault(p, []).append(ch)
    for p, chs in edges.items():
        for k, ch in enumerate(chs):
            rows.append(["CallEdge", tok(p), tok(ch), str(k)])
    for r in c.execute("select arg_hash, call_hash, value_hash, arg_position, arg_key from argument"):
        rows.append(["Argument", tok(r[0]), tok(r[1]), tok(r[2]), "~" if r[3] is None else str(r[3]),
                     "~" if r[4] is None else str(r[4])])
    for r in c.execute("select arg_hash, result_call_hash from argument_result"):
        rows.append(["ArgResult", tok(r[0]), tok(r[1])])
    for r in c.execute("select value_hash, type, format, value from value"):
        rows.append(["Value", tok(r[0]), str(r[1]), str(r[2]), dig(r[3])])
    for r in c.execute("select parent_value_hash, value_hash from subvalue"):
        rows.append(["Subvalue", tok(r[0]), tok(r[1])])
    for r in c.execute("select value_hash, path from file"):
        rows.append(["File", tok(r[0]), dig(r[1])])
    for r in c.execute("select hash, name, namespace, source from task"):
        rows.append(["Task", tok(r[0]), str(r[1]), str(r[2]), dig(r[3])])
    for r in c.execute("select tag_hash, entity_type, entity_id, key, value, is_current from tag"):
        rows.append(["Tag", tok(r[0]), str(r[1]), "" if r[2] == "" else tok(r[2]), str(r[3]), str(r[4]),
                     str(int(bool(r[5])))])
    for r in c.execute("select parent_id, child_id from tag_edit"):
        rows.append(["TagEdit", tok(r[0]), tok(r[1])])
    for r in c.execute("select call_hash, task_hash from call_subtree_task"):
        rows.append(["Subtree", tok(r[0]), tok(r[1])])
    for r in c.execute("select eval_hash, task_hash, args_hash, value_hash from evaluation"):
        rows.append(["Eval", tok(r[0]), tok(r[1]), tok(r[2]), tok(r[3])])
    c.close()
    rows.sort()
    return rows


def exec_ids(path: Path) -> list[str]:
    c = sqlite3.connect(str(path))
    out = [r[0] for r in c.execute("select e.id from execution e join job j on j.id = e.job_id "
                                   "order by j.start_time, e.rowid")]
    c.close()
    return out


# ------------------------------------------------------------------------------------------------
# a repository under test
# ------------------------------------------------------------------------------------------------
class Repo:
    def __init__(self, ctx: Ctx, name: str):
        from .. import dbgen

        self.ctx = ctx
        self.name = name
        self.dir = ctx.scratch / f"repo_{name}"
        self.dir.mkdir(parents=True, exist_ok=True)
        self.path = dbgen.new_repo(ctx.scratch, f"{name}.db")
        (self.dir / "redun.ini").write_text(f"[backend]\ndb_uri = sqlite:///{self.path}\n")
        self.plan: list = []  # replayable history

    def backend(self):
        from .. import simloop

        return simloop.open_backend(self.path)

    def add_remote(self, name: str, other: "Repo") -> None:
        with open(self.dir / "redun.ini", "a") as f:
            f.write(f"\n[repos.{name}]\nconfig_dir = {other.dir}\n")

    def run(self, spec, seed: Optional[int] = None, abort: Optional[int] = None, exec_tags=()):
        import random

        from .. import dbgen

        rng = random.Random(seed) if seed is not None else None
        out = dbgen.run_spec(self.path, spec, rng, abort_after=abort, exec_tags=exec_tags)
        self.ctx.require(out["outcome"] != "hang", f"controlled run hung on {spec}")
        self.plan.append(["run", spec, seed, abort, [list(t) for t in exec_tags]])
        return out

    def tag_edit(self, rng) -> Optional[list]:
        """One random tag edit through the backend API on an execution / job / value / task."""
        from redun.backends.base import TagEntity

        from .. import simloop

        c = sqlite3.connect(str(self.path))
        # deterministic orders only (ids are uuids): start order / insertion order
        ents = ([("Execution", r[0]) for r in c.execute(
                    "select e.id from execution e join job j on j.id = e.job_id order by j.start_time, e.rowid")]
                + [("Job", r[0]) for r in c.execute("select id from job order by start_time, rowid limit 3")]
                + [("Value", r[0]) for r in c.execute(
                    "select value_hash from value where type not in ('redun.Task', ?) order by rowid limit 4", (ERR,))]
                + [("Task", r[0]) for r in c.execute("select hash from task order by rowid limit 2")])
        tagged = [(r[0], r[1], r[2]) for r in c.execute(
            "select entity_type, entity_id, key from tag where is_current = 1 and entity_id != '' "
            "and key in ('env', 'owner', 'k') order by rowid")]
        c.close()
        if not ents:
            return None
        be = simloop.open_backend(self.path)
        try:
            op = rng.choice(["add", "update", "update", "replace", "delete"]) if tagged else "add"
            if op == "add":
                et, eid = rng.choice(ents)
                kv = (rng.choice(["env", "owner", "k"]), rng.choice(["a", "b", 1, None]))
                be.record_tags(TagEntity(et), eid, [kv])
                rec = ["add", et, kv]
            elif op == "update":
                et, eid, key = rng.choice(tagged)
                kv = (key, rng.choice(["a", "b", "c", 2]))
                be.record_tags(TagEntity(et), eid, [kv], update=True)
                rec = ["update", et, kv]
            elif op == "replace":
                et, eid, key = rng.choice(tagged)
                kv = (rng.choice(["env", "owner"]), rng.choice(["x", "y"]))
                be.update_tags(TagEntity(et), eid, [key], [kv])
                rec = ["replace", et, key, kv]
            else:
                et, eid, key = rng.choice(tagged)
                be.delete_tags(eid, [], keys=[key])
                rec = ["delete", et, key]
        finally:
            simloop.close_backend(be)
        self.plan.append(["tag"] + rec)
        return rec


# ------------------------------------------------------------------------------------------------
# transfers: the functions the CLI uses
# ------------------------------------------------------------------------------------------------
def cli(argv: list[str]) -> str:
    from redun.cli import RedunClient

    client = RedunClient()
    client.stdout = io.StringIO()
    client.execute(["redun"] + argv)
    return client.stdout.getvalue()


def transfer(ctx: Ctx, src: Repo, dst: Repo, roots: Optional[list[str]], channel: str) -> int:
    """Returns the number of records written, or -1 when the channel does not report it."""
    from redun.cli import RedunClient

    from .. import simloop

    if channel == "sync":
        bs, bd = src.backend(), dst.backend()
        try:
            return RedunClient()._sync_records(bs, bd, list(roots) if roots else None)
        finally:
            simloop.close_backend(bs)
            simloop.close_backend(bd)
    if channel == "jsonl":  # what export_command / import_command do, through a JSON-lines file
        bs, bd = src.backend(), dst.backend()
        try:
            ids = bs.iter_record_ids(roots if roots else exec_ids(src.path)[::-1])
            f = ctx.tmp(f"export_{src.name}_{dst.name}.jsonl")
            with open(f, "w") as out:
                for rec in bs.get_records(ids):
                    out.write(json.dumps(rec) + "\n")
            with open(f) as inp:
                return bd.put_records(json.loads(line) for line in inp)
        finally:
            simloop.close_backend(bs)
            simloop.close_backend(bd)
    if channel == "cli-export-import":
        f = ctx.tmp(f"cliexport_{src.name}_{dst.name}.jsonl")
        cli(["-c", str(src.dir), "export", "--file", str(f)] + list(roots or []))  # export takes full ids
        cli(["-c", str(dst.dir), "import", "--file", str(f)])
        return -1
    if channel == "cli-push":
        out = cli(["-c", str(src.dir), "push", dst.name] + [r[:10] for r in (roots or [])])
        if "up to date" in out:
            return 0
        import re

        m = re.search(r"Pushed (\d+) record", out)
        ctx.require(bool(m), f"unexpected push output: {out!r}")
        return int(m.group(1))
    if channel == "cli-pull":
        out = cli(["-c", str(dst.dir), "pull", src.name] + [r[:10] for r in (roots or [])])
        import re

        m = re.search(r"Pulled (\d+) new record", out)
        ctx.require(bool(m), f"unexpected pull output: {out!r}")
        return int(m.group(1))
    raise AssertionError(channel)


# ------------------------------------------------------------------------------------------------
# cache lookups through the public backend method
# ------------------------------------------------------------------------------------------------
def lookup_queries(src_path: Path, dst_path: Path, limit: int = 6) -> list[dict]:
    """(task, args) of call nodes with a non-error result in the source; cur = all task hashes, and
    all but one task of the recorded subtree (a child task's code changed)."""
    c = sqlite3.connect(str(src_path))
    cd = sqlite3.connect(str(dst_path))
    tasks = sorted({r[0] for r in c.execute("select hash from task")} | {r[0] for r in cd.execute("select hash from task")})
    qs = []
    for call, th, ah in c.execute(
            "select c.call_hash, c.task_hash, c.args_hash from call_node c join value v on v.value_hash = c.value_hash "
            "where v.type != ? order by c.call_hash", (ERR,)):
        sub = [r[0] for r in c.execute("select task_hash from call_subtree_task where call_hash = ? order by task_hash", (call,))]
        ev = (c.execute("select eval_hash from evaluation where task_hash = ? and args_hash = ?", (th, ah)).fetchone()
              or cd.execute("select eval_hash from evaluation where task_hash = ? and args_hash = ?", (th, ah)).fetchone())
        others = [t for t in sub if t != th]
        qs.append({"task": th, "args": ah, "eval": ev[0] if ev else "0" * 40, "cur": tasks, "shallow": 1})
        qs.append({"task": th, "args": ah, "eval": ev[0] if ev else "0" * 40, "cur": tasks, "shallow": 0})
        if others:
            qs.append({"task": th, "args": ah, "eval": ev[0] if ev else "0" * 40,
                       "cur": [t for t in tasks if t != others[0]], "shallow": 1})
    c.close()
    cd.close()
    # keep those with a changed-subtree variant first
    qs.sort(key=lambda q: (len(q["cur"]) == len(tasks), q["task"], q["args"], -q["shallow"]))
    return qs[:limit * 3]


def do_lookups(path: Path, qs: list[dict]) -> list[int]:
    from redun.task import CacheCheckValid, CacheResult, CacheScope

    from .. import simloop

    be = simloop.open_backend(path)
    out = []
    try:
        for q in qs:
            _, _, kind = be.check_cache(
                task_hash=q["task"], args_hash=q["args"], eval_hash=q["eval"], execution_id="no-such-execution",
                scheduler_task_hashes=set(q["cur"]), cache_scope=CacheScope.BACKEND,
                check_valid=CacheCheckValid.SHALLOW if q["shallow"] else CacheCheckValid.FULL)
            out.append(int(kind == (CacheResult.ULTIMATE if q["shallow"] else CacheResult.SINGLE)))
    finally:
        simloop.close_backend(be)
    return out


# ------------------------------------------------------------------------------------------------
# one traced transfer (+ its repetition)
# ------------------------------------------------------------------------------------------------
def traced_transfer(ctx: Ctx, src: Repo, dst: Repo, root_idx: Optional[list[int]], channel: str,
                    traces: list, metas: list, lookups: bool = True) -> dict:
    eids = exec_ids(src.path)
    roots = [eids[i] for i in root_idx if i < len(eids)] if root_idx is not None else None
    s = dump_db(src.path)
    d0 = dump_db(dst.path)
    qs = lookup_queries(src.path, dst.path) if lookups else []
    l_src = do_lookups(src.path, qs)
    l_d0 = do_lookups(dst.path, qs)
    try:
        n1 = transfer(ctx, src, dst, roots, channel)
        d1 = dump_db(dst.path)
        l_d1 = do_lookups(dst.path, qs)
        n2 = transfer(ctx, src, dst, roots, channel)
    except Exception as e:  # a transfer (or its repetition) must not fail on these repositories
        from ..core import MachineryError

        if isinstance(e, MachineryError):
            raise
        ctx.violation(f"{channel} {src.name}->{dst.name} roots={root_idx}: transfer raised {type(e).__name__}: "
                      f"{str(e)[:300]}", {"origin": {"src": src.name, "dst": dst.name, "channel": channel,
                                                      "root_idx": root_idx, "src_plan": copy.deepcopy(src.plan),
                                                      "dst_plan": copy.deepcopy(dst.plan)}})
        return {}
    d2 = dump_db(dst.path)
    ctx.require(dump_db(src.path) == s, "a transfer modified its source repository")
    eff_roots = roots if roots else eids
    t = {"src": s, "d0": d0, "d1": d1, "d2": d2, "roots": [tok(r) for r in eff_roots],
         "n1": n1, "n2": max(n2, 0),
         "lookups": [{"task": tok(q["task"]), "args": tok(q["args"]), "cur": [tok(x) for x in q["cur"]],
                      "shallow": q["shallow"], "src": a, "d0": b, "d1": c}
                     for q, a, b, c in zip(qs, l_src, l_d0, l_d1)]}
    meta = {"src": src.name, "dst": dst.name, "channel": channel, "root_idx": root_idx,
            "src_plan": copy.deepcopy(src.plan), "dst_plan": copy.deepcopy(dst.plan), "n1": n1, "n2": n2,
            "rows": {"src": len(s), "d0": len(d0), "d1": len(d1)},
            "jobless_call_nodes": jobless_call_nodes(s, t["roots"])}
    traces.append(t)
    metas.append(meta)
    src.plan.append(["sent", dst.name, root_idx, channel])
    dst.plan.append(["received", src.name, root_idx, channel])
    return t


def jobless_call_nodes(src_rows: list, roots: list[str]) -> int:
    """Call nodes reachable from the root executions' jobs through call edges that have no job in those
    executions (a subtree answered by ultimate reduction): only the CallNode -> Task / Value edges lead
    to their tasks and values."""
    roots_s = set(roots)
    job_calls = {r[6] for r in src_rows if r[0] == "Job" and r[8] in roots_s and r[6] != "~"}
    kids: dict = {}
    for r in src_rows:
        if r[0] == "CallEdge":
            kids.setdefault(r[1], set()).add(r[2])
    seen, todo = set(job_calls), list(job_calls)
    while todo:
        for c in kids.get(todo.pop(), ()):
            if c not in seen:
                seen.add(c)
                todo.append(c)
    return len(seen - job_calls)


def validate(ctx: Ctx, traces: list, what: str) -> dict[int, dict]:
    f = ctx.tmp(f"transfers_{what}.json")
    f.write_text(json.dumps(traces))
    cfg = ("SPECIFICATION TSpec\nCONSTANTS\n Deviations = {}\n MaxExec = 0\n MaxTagOps = 0\n MaxXfer = 0\n"
           "CHECK_DEADLOCK FALSE\n")
    res = run_tlc("cache/Transfer_Trace.tla", cfg, ctx.scratch, workers=1, env={"TRACE_FILE": str(f)},
                  deadlock=False, timeout=1500, heap="6g")
    ctx.require(res.error is None and not res.violated,
                f"TLC failed on transfer validation ({what}): {res.error} {res.violated}\n{res.out[-2500:]}")
    ctx.add_tlc(res)
    v = {i: d for i, d in res.recs("VERDICT")}
    ctx.require(len(v) == len(traces), f"verdicts {len(v)} != traces {len(traces)} ({what})")
    return v


def _viol(ctx: Ctx, stats: dict, what: str, replay: Any, key: Optional[str] = None) -> None:
    """One witness per deviation key (the counts are in stats); everything unkeyed is reported."""
    if key is not None:
        if key in stats.setdefault("_keys", []):
            return
        stats["_keys"].append(key)
    ctx.violation(what, replay, key=key)


def judge(ctx: Ctx, v: dict, meta: dict, stats: dict) -> None:
    ctx.count_impl_trace()
    ctx.count_eval(13)
    origin = {k: meta[k] for k in ("src", "dst", "channel", "root_idx", "src_plan", "dst_plan")}
    head = f"{meta['channel']} {meta['src']}->{meta['dst']} roots={meta['root_idx']}: "
    if not v["asbuilt"]:
        stats["asbuilt_drift"] += 1
    if not v["lookup_model"]:
        stats["lookup_model_drift"] += 1
    if not v["rows"]:
        _viol(ctx, stats, head + "a record of the closure does not have the same rows in the destination "
                      "(execution / call node / argument / value / file / task / tag / tag-edit tables)",
                      {"origin": origin, "verdict": v})
    if not v["order"]:
        if v["childsets"]:
            stats["order_lost"] += 1
            _viol(ctx, stats, head + "call nodes arrive with the same children but in a different call_order "
                          "(sibling order of the call graph is not preserved)",
                          {"origin": origin, "verdict": v}, key=KEY_ORDER)
        else:
            _viol(ctx, stats, head + "child edges of a transferred call node differ from the source's",
                          {"origin": origin, "verdict": v})
    if not v["jobs"]:
        if v["stale_only"]:
            stats["stale_job"] += 1
            _viol(ctx, stats, head + "a job row that existed in the destination (sent while running) keeps "
                          "end_time / cached / call_hash = NULL although the source has finished it",
                          {"origin": origin, "verdict": v}, key=KEY_STALE)
        else:
            _viol(ctx, stats, head + "a job row of the closure differs between source and destination",
                          {"origin": origin, "verdict": v})
    if not v["tags"]:
        _viol(ctx, stats, head + "a tag of the closure has a different current / superseded status in the "
                      "destination than its edit history implies", {"origin": origin, "verdict": v})
    if not v["mono"]:
        _viol(ctx, stats, head + "the transfer removed destination rows or added rows outside the closure",
                      {"origin": origin, "verdict": v})
    if not v["idem"]:
        _viol(ctx, stats, head + f"repeating the transfer changed the destination or reported new records ({meta['n2']})",
                      {"origin": origin, "verdict": v})
    if not v["count"] and meta["n1"] != -1:
        _viol(ctx, stats, head + f"put_records reported {meta['n1']} new records, the closure holds {v['nnew']} new ones",
                      {"origin": origin, "verdict": v})
    if not v["cache"]:
        if v["sub_only"]:
            stats["stale_shallow_hit"] += 1
            _viol(ctx, stats, head + "after the transfer the destination's shallow (ULTIMATE) lookup serves a call "
                          "node although a task of its subtree is not current; the source refuses it "
                          "(CallSubtreeTask rows are not transferred)", {"origin": origin, "verdict": v},
                          key=KEY_SUBTREE)
        else:
            _viol(ctx, stats, head + "the destination serves a cache lookup neither it nor the source served",
                          {"origin": origin, "verdict": v})


# ------------------------------------------------------------------------------------------------
# scenarios
# ------------------------------------------------------------------------------------------------
def scenario_random(ctx: Ctx, k: int, traces: list, metas: list, depth: int, channels: list[str]) -> None:
    from .. import dbgen

    rng = ctx.rng
    a, b = Repo(ctx, f"a{k}"), Repo(ctx, f"b{k}")
    a.add_remote(b.name, b)
    b.add_remote(a.name, a)

    def some_runs(r: Repo, n: int):
        for _ in range(n):
            earlier = [p[1] for p in r.plan if p[0] == "run" and p[3] is None]
            if earlier and rng.random() < 0.3:
                spec, cut = rng.choice(earlier), None      # the same tree again: every job is a cache hit
            else:
                spec = dbgen.gen_spec(rng, rng.randint(1, depth), p_boom=0.12, files=True, tags=True, deep=True)
                cut = rng.choice([None, None, None, 4])
            r.run(spec, seed=rng.randrange(10 ** 6), abort=cut,
                  exec_tags=[("proj", rng.choice(["p", "q"]))] if rng.random() < 0.5 else ())
        for _ in range(rng.randint(0, 3)):
            r.tag_edit(rng)

    some_runs(a, 3)
    if rng.random() < 0.5:
        some_runs(b, 1)
    ch = rng.choice(channels)
    # any subset of the executions; "only the latest" twice as likely (it is the one that may have been
    # answered from the cache for whole subtrees)
    roots = rng.choice([None, [0], [1], [2], [2], [0, 1], [1, 2]])
    traced_transfer(ctx, a, b, roots, ch, traces, metas)
    # edits on either side, then the other direction
    for _ in range(rng.randint(0, 2)):
        (a if rng.random() < 0.5 else b).tag_edit(rng)
    if rng.random() < 0.6:
        some_runs(b, 1)
    n_b = len(exec_ids(b.path))
    roots_b = rng.choice([None, [n_b - 1], list(range(n_b))])
    traced_transfer(ctx, b, a, roots_b, rng.choice(channels), traces, metas)
    # and once more forward (new edits on a)
    if rng.random() < 0.5:
        a.tag_edit(rng)
        traced_transfer(ctx, a, b, None, rng.choice(channels), traces, metas, lookups=False)


def scenario_cached_subtree(ctx: Ctx, traces: list, metas: list) -> None:
    """Only a LATER execution is transferred, and that execution was answered from the cache:
    execution 0 computes deep(1) -> dleaf(1) -> dleaf2(1); execution 1 calls deep(1) again from another
    tree (deep is check_valid = shallow: a cached job for deep, NO job for dleaf / dleaf2, their call
    nodes hang off deep's call node by call edges only); execution 2 repeats execution 1 (every job a
    cache hit).  Each of the later executions alone goes to an empty repository."""
    from redun.backends.base import TagEntity

    from .. import dbgen, simloop

    a = Repo(ctx, "acs")
    a.run(["add", ["deep", 1], ["lit", 2]], exec_tags=[("proj", "first")])
    a.run(["pack", ["deep", 1], ["inc", ["lit", 5]]])
    a.run(["pack", ["deep", 1], ["inc", ["lit", 5]]])
    be = a.backend()
    try:   # a tag on a task that only the cached subtree uses
        be.record_tags(TagEntity.Task, dbgen.dleaf.hash, [("doc", "leaf of the shallow subtree")])
    finally:
        simloop.close_backend(be)
    a.plan.append(["tag", "add", "Task", ["doc", "leaf of the shallow subtree"]])
    n = 0
    for k, (roots, channel) in enumerate([([1], "sync"), ([2], "cli-push"), ([1, 2], "jsonl"), ([2], "cli-export-import")]):
        b = Repo(ctx, f"bcs{k}")
        a.add_remote(b.name, b)
        traced_transfer(ctx, a, b, roots, channel, traces, metas, lookups=(k == 0))
        n += metas[-1]["jobless_call_nodes"] if metas and metas[-1]["dst"] == b.name else 0
    ctx.require(n > 0 or bool(ctx.violations),
                "the cached-subtree scenario produced no call node without a job (deep was not served by "
                "ultimate reduction)")


def scenario_midrun(ctx: Ctx, traces: list, metas: list, cut_at: int = 6) -> None:
    """A transfer performed while the source's workflow is still running, repeated after it ended."""
    import random

    from .. import dbgen, simloop

    a, b = Repo(ctx, "amid"), Repo(ctx, "bmid")
    spec = ["pack", ["inc", ["lit", 1]], ["add", ["inc", ["lit", 2]], ["lit", 3]]]

    class MidChooser(dbgen.AbortingChooser):
        calls = 0

        def choose(self_inner, choices, d):
            self_inner.calls += 1
            if self_inner.calls == cut_at:
                traced_transfer(ctx, a, b, None, "sync", traces, metas, lookups=False)
            return super().choose(choices, d)

    be = simloop.open_backend(a.path)
    try:
        s, d = simloop.make_scheduler(be, chooser=MidChooser(random.Random(5), None))
        out = simloop.run_controlled(s, d, dbgen.node(spec))
    finally:
        simloop.close_backend(be)
    ctx.require(out["outcome"] == "value", f"mid-run scenario did not finish: {out}")
    a.plan.append(["run-with-transfer-at", spec, 5, cut_at])
    traced_transfer(ctx, a, b, None, "sync", traces, metas)


def scenario_curated(ctx: Ctx, traces: list, metas: list) -> None:
    """Fixed witness: ordered children, files, tag history, all channels incl. the CLI commands."""
    a, b = Repo(ctx, "acur"), Repo(ctx, "bcur")
    a.add_remote(b.name, b)
    b.add_remote(a.name, a)
    a.run(["pack", ["inc", ["lit", 1]], ["add", ["inc", ["lit", 2]], ["inc", ["lit", 3]]]], exec_tags=[("proj", "p")])
    a.run(["vtag", ["jtag", ["files", "g1.txt", "h1.txt"], "env", "a"], "owner", "b"])
    import random

    rng = random.Random(7)
    for _ in range(4):
        a.tag_edit(rng)
    traced_transfer(ctx, a, b, [0], "cli-push", traces, metas)
    traced_transfer(ctx, a, b, [1], "cli-export-import", traces, metas)
    b.run(["inc", ["inc", ["lit", 1]]])
    b.tag_edit(rng)
    traced_transfer(ctx, b, a, None, "cli-pull", traces, metas)
    traced_transfer(ctx, a, b, None, "jsonl", traces, metas)


# ------------------------------------------------------------------------------------------------
def mc_cfg(devs: list[str], me: int, mt: int, mx: int, invs: list[str]) -> str:
    d = "{" + ", ".join(f'"{x}"' for x in devs) + "}"
    return (f"SPECIFICATION Spec\nCONSTANTS\n Deviations = {d}\n MaxExec = {me}\n MaxTagOps = {mt}\n"
            f" MaxXfer = {mx}\n" + "".join(f"INVARIANT {i}\n" for i in invs) + "CHECK_DEADLOCK FALSE\n")


CONTRACT = ["RowsFaithful", "JobsFaithful", "ChildOrderFaithful", "ChildSetsFaithful", "TagsFaithful",
            "NothingLost", "TwiceAddsNothing", "CacheSafe"]
# named deviation(s) -> the one invariant they break (model-level controls; the first and the last pair
# describe behaviour that has since been repaired in /repo and stay as regression controls)
DEV_INV = [(["ChildOrderUnspecified"], "ChildOrderFaithful"), (["StaleJobRowKept"], "JobsFaithful"),
           (["SubtreeRowsNotTransferred", "EmptySubtreeAccepted"], "CacheSafe")]
ASBUILT_BROKEN = {"JobsFaithful"}


def model_check(ctx: Ctx) -> None:
    me, mt, mx = ctx.pick((1, 1, 2), (2, 2, 2))
    jobs = []
    # (a) repaired world: the whole contract; (b) as built: everything but the invariant the open
    # deviation breaks; (c) each deviation breaks exactly its own invariant; (d) two executions and one
    # transfer of any subset (the second execution may be answered from the cache for a whole subtree:
    # a job for the shallow task g, none for h) -- in every tier; (e) control: in that world the
    # CallNode -> Task ownership edge is NOT redundant (dropping it changes some closure)
    jobs.append(("ideal", mc_cfg([], me, mt, mx, ["TypeOK", "TagLeafInv", "IdealAgrees"] + CONTRACT), None))
    keep = [i for i in CONTRACT if i not in ASBUILT_BROKEN]
    jobs.append(("asbuilt", mc_cfg(ALL_DEVS, me, 1 if not ctx.quick else mt, mx,
                                   ["TypeOK", "TagLeafInv", "AsBuiltAgrees"] + keep), None))
    if ctx.quick:
        jobs.append(("ideal_subset", mc_cfg([], 2, 0, 1, ["TypeOK", "IdealAgrees"] + CONTRACT), None))
    else:  # three tag edits (add / update / delete chains) with one execution
        jobs.append(("ideal_tags", mc_cfg([], 1, 3, 2, ["TypeOK", "TagLeafInv", "IdealAgrees"] + CONTRACT), None))
        jobs.append(("asbuilt_tags", mc_cfg(ALL_DEVS, 1, 3, 2, ["TypeOK", "TagLeafInv", "AsBuiltAgrees"] + keep), None))
    for devs, inv in DEV_INV:
        if ctx.quick and devs[0] != "StaleJobRowKept":
            continue   # the controls of deviations already repaired in /repo run in the thorough tier
        jobs.append(("dev_" + devs[0], mc_cfg(devs, 1, 0, 2, [inv]), inv))
    jobs.append(("ctl_task_edge", mc_cfg([], 2, 0, 1, ["TaskEdgeRedundant"]), "TaskEdgeRedundant"))

    def inv_of(name):
        return next(j[2] for j in jobs if j[0] == name)

    def one(job):
        name, cfg, _ = job
        sub = ctx.scratch / f"mc_{name}"
        return run_tlc("cache/Transfer.tla", cfg, sub, workers=(ctx.pick(2, 8) if name == "ideal" else ctx.pick(2, 4)) if inv_of(name) is None else 1,
                       deadlock=False, timeout=3000, heap="6g")

    with ThreadPoolExecutor(max_workers=len(jobs)) as ex:
        results = list(ex.map(one, jobs))
    for (name, _, inv), res in zip(jobs, results):
        if inv is None:
            expect_clean(res, f"Transfer.tla {name}")
        else:
            expect_violation(res, inv, f"Transfer.tla: {name} must break {inv}")
        ctx.add_tlc(res)
    ctx.note("model_bounds", {"MaxExec": me, "MaxTagOps": mt, "MaxXfer": mx,
                              "extra": None if ctx.quick else "MaxExec 1, MaxTagOps 3, MaxXfer 2"})


def run(ctx: Ctx) -> None:
    from .. import dbgen

    ctx.assume("SQLite repositories", "transfers run while no other process writes the destination",
               "Evaluation / Handle rows are outside the closure by design",
               "ids compared by 12-character prefix, blobs by SHA-1 digest")
    dbgen.set_file_dir(ctx.scratch)
    stats = {"asbuilt_drift": 0, "lookup_model_drift": 0, "order_lost": 0, "stale_job": 0,
             "stale_shallow_hit": 0}

    # model checking runs in parallel with the real transfers
    with ThreadPoolExecutor(max_workers=1) as bg:
        fut = bg.submit(model_check, ctx)

        traces: list = []
        metas: list = []
        scenario_curated(ctx, traces, metas)
        scenario_cached_subtree(ctx, traces, metas)
        scenario_midrun(ctx, traces, metas)
        nscen = ctx.pick(4, 40)
        channels = ["sync", "sync", "jsonl"] + ([] if ctx.quick else ["cli-push", "cli-export-import"])
        for k in range(nscen):
            scenario_random(ctx, k, traces, metas, depth=ctx.pick(2, 3), channels=channels)
        sizes = [m["rows"]["src"] for m in metas]
        ctx.note("transfers", {"n": len(traces), "max_src_rows": max(sizes), "channels": sorted({m["channel"] for m in metas})})

        # negative control: drop one transferred row from a destination dump (three different transfers,
        # so that a code base that already breaks one of them does not blind the control)
        traces = [t for t in traces if t]
        if not traces:
            fut.result()
            ctx.require(bool(ctx.violations), "no transfer could be traced and nothing was reported")
            return
        bases = [i for i, t in enumerate(traces) if t["n1"] > 3 and any(r[0] == "Argument" for r in t["d1"])
                 and not any(r[0] == "Argument" for r in t["d0"])][:3]
        ctx.require(bool(bases), "no transfer suitable for the negative control")
        for base in bases:
            bad = copy.deepcopy(traces[base])
            victim = next(r for r in bad["d1"] if r[0] == "Argument")
            bad["d1"].remove(victim)
            bad["d2"] = [r for r in bad["d2"] if r != victim]
            traces.append(bad)
        verdicts = validate(ctx, traces, "all")
        fut.result()

    nb = len(traces)
    ctl = [verdicts[nb - k]["rows"] == 0 for k in range(len(bases))]
    ctx.negative_control(all(ctl), "a destination dump with one transferred Argument row removed must fail RowsKept")
    ctx.note("negative_control_bases_clean", sum(1 for b in bases if verdicts[b + 1]["rows"] == 1))
    for i, m in enumerate(metas, 1):
        judge(ctx, verdicts[i], m, stats)
        if m["n1"] != 0 or m["rows"]["d0"] > 0:
            ctx.distinct([m["src_plan"], m["root_idx"], m["channel"], m["dst_plan"]])
    ctx.sample({"transfer": {k: metas[0][k] for k in ("src", "dst", "channel", "root_idx", "n1", "n2", "rows")},
                "src_history": [json.dumps(p) for p in metas[0]["src_plan"]], "verdict": verdicts[1]})
    mid = next((i for i, m in enumerate(metas, 1) if m["src"] == "amid" and verdicts[i]["jobs"] == 0), None)
    if mid:
        ctx.sample({"transfer": "sync amid->bmid, first while the workflow runs, again after it ended",
                    "verdict": verdicts[mid]})
    stats.pop("_keys", None)
    stats["transfers_with_jobless_call_nodes"] = sum(1 for m in metas if m["jobless_call_nodes"])
    stats["subset_transfers"] = sum(1 for m in metas if m["root_idx"] is not None)
    ctx.note("stats", stats)


def replay(ctx: Ctx, rec: dict) -> None:
    """Rebuild the two histories and repeat the failing transfer."""
    from .. import dbgen

    dbgen.set_file_dir(ctx.scratch)
    o = rec["replay"]["origin"]
    if any(p[0] in ("tag", "run-with-transfer-at", "sent", "received") for p in o["src_plan"] + o["dst_plan"]):
        run(ctx)  # histories with edits / interleaved transfers are regenerated by the seeded run
        return
    a, b = Repo(ctx, "ra"), Repo(ctx, "rb")
    for r, plan in ((a, o["src_plan"]), (b, o["dst_plan"])):
        for p in plan:
            r.run(p[1], seed=p[2], abort=p[3], exec_tags=[tuple(t) for t in p[4]])
    traces, metas = [], []
    traced_transfer(ctx, a, b, o["root_idx"], o["channel"] if o["channel"] in ("sync", "jsonl") else "sync", traces, metas)
    v = validate(ctx, traces, "replay")
    judge(ctx, v[1], metas[0], {"asbuilt_drift": 0, "lookup_model_drift": 0, "order_lost": 0, "stale_job": 0,
                                "stale_shallow_hit": 0})
