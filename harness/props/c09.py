"""
C09  Executions terminate with every job settled.

Spec: spec/sched/Scheduler.tla (as-built event loop).  TLC explores every schedule of every program
of the batch: the safety form NoHang (never quiescent with a pending workflow) and SettledAtReturn
are invariants; liveness `Terminates` is checked under fairness on the curated programs.  The
as-built model contains the deviation DevLostWakeup; with it TLC finds hung states (reported with
a witness path each), without it NoHang holds -- so every model hang is explained by exactly that
deviation.  Binding: TLC behaviours (simulated + every hung witness) are followed choice by choice
on the real Scheduler under the controlled loop; every recorded execution (plus seeded random
schedules) is validated by TLC against Sched_Contract with the "nohang" clauses.
"""

from __future__ import annotations

from ..core import Ctx
from ..tlc import run_tlc
from .. import schedlab

META = {
    "level": "model_checking",
    "level_text": "TLC: NoHang/SettledAtReturn over all schedules of 6 curated + seeded random programs "
                  "(limits, duplicates, failures, multi-run plans), liveness under weak fairness; real "
                  "scheduler driven along TLC behaviours and random schedules by a controlled event loop, "
                  "each recorded execution validated by TLC against the contract.",
    "level_note": "Controlled loop covers every order in which events can reach the queue, not races "
                  "inside executors; programs from the calls/leaf/fail grammar; premises of the property "
                  "(terminating task functions, no demand above a limit) are built into the generator.",
    "technique": "explicit TLA+ as-built scheduler model + TLC (safety exhaustively, liveness under "
                 "fairness); spec->code schedule replay and code->spec contract trace validation",
    "rule": "a case is (program, plan, complete schedule of choices); distinct by program and choice "
            "sequence; non-trivial = at least one job was submitted to an executor",
}

ON = ["nohang"]


def _corrupt(t: dict) -> bool:
    # drop the job_end of one started job from a returning run: "returned-with-unsettled-jobs"
    if not t["evs"] or t["evs"][-1].get("outcome") != "value":
        return False
    for i, e in enumerate(t["evs"]):
        if e["ev"] == "job_end":
            del t["evs"][i]
            return True
    return False


def liveness(ctx: Ctx) -> None:
    import json

    progs = schedlab.curated_programs()[:4]
    f = ctx.tmp("live_progs.json")
    f.write_text(json.dumps(progs))
    cfg = ("SPECIFICATION FairSpec\nCONSTANT DevChoices = {FALSE}\n" + schedlab.DEVS + "VIEW View\nPROPERTY Terminates\n"
           "CHECK_DEADLOCK FALSE\n")
    res = run_tlc("sched/Scheduler.tla", cfg, ctx.scratch, workers=4, env={"PROGRAM_FILE": str(f)},
                  timeout=900, heap="6g")
    ctx.require(res.error is None and not res.violated,
                f"liveness (Terminates under fairness) failed on the model without the deviation: "
                f"{res.error} {res.violated}\n{res.out[-2000:]}")
    ctx.add_tlc(res)
    ctx.note("liveness", {"property": "[]<>RunOver under WF(Step), WF(Finish(j)), WF(NextRun)",
                          "states": res.distinct})


def run(ctx: Ctx) -> None:
    ctx.assume("task functions terminate; no job demands more units than a limit",
               "single scheduler thread; executor completions arrive as queue events in any order")
    liveness(ctx)
    schedlab.suite(ctx, ON, n_random_progs=ctx.pick(3, 24), n_sim=ctx.pick(80, 1500),
                   n_random_hist=ctx.pick(25, 600), corrupt=_corrupt, tag="c09")


def replay(ctx: Ctx, rec: dict) -> None:
    schedlab.replay_record(ctx, rec, ON)
