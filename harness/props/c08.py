"""
C08  Resource limits are never exceeded.

Spec: Scheduler.tla invariant HeldOK (limits_used equals the units of submitted-and-unreported jobs
and never exceeds the limit, 1 for unconfigured names) over all schedules; Sched_Contract "limits"
clauses recompute `held` from submit / finish events alone and compare Scheduler.limits_used against
it after every step of the loop (used <= limit, used >= held, used >= 0; all units returned when a
run returns).  Binding as for C09 (schedlab.suite); random schedules also run under other limit
configurations.  A second trace source is the repository's own test-suite run with its real thread and
process pools under a recording pytest plugin (harness/pytest_trace.py): every Scheduler.run it performs
is validated against the same limits clauses.
"""

from __future__ import annotations

from ..core import Ctx, MachineryError, VERIF
from .. import schedlab

META = {
    "level": "model_checking",
    "level_text": "TLC: HeldOK over all schedules of curated + seeded random programs (list- and "
                  "dict-style units, shared and disjoint resources, unconfigured names, failures, cache "
                  "hits, duplicates); every recorded execution of the real scheduler is validated by TLC "
                  "against the limits clauses of the contract, with `held` recomputed from events.",
    "level_note": "Units are observed at executor.submit (job.get_limits()) and Scheduler.limits_used; "
                  "completions are injected by the controlled loop, so 'reported' means the executor "
                  "called done_job/reject_job.",
    "technique": "explicit TLA+ as-built scheduler model + TLC invariant; contract trace validation by TLC "
                 "of executions driven along TLC behaviours and random schedules",
    "rule": "a case is (program, limits, complete schedule); distinct by program, limit configuration and "
            "choice sequence; non-trivial = at least one submitted job holds units",
}

ON = ["limits"]


def _corrupt(t: dict) -> bool:
    # make one job hold one more unit than reported: a later submit must exceed the limit, or the
    # implementation's `used` falls below the recomputed `held`
    for e in t["evs"]:
        if e["ev"] == "submit" and any(e["units"].values()):
            r = next(k for k, v in e["units"].items() if v)
            e["units"][r] += t["hdr"]["limits"][r]
            return True
    return False


def model_control(ctx: Ctx) -> None:
    """With the deviation DevDoubleRelease (redun before its fix: commit) TLC must find HeldOK violated."""
    from ..tlc import expect_violation

    progs = [p for p in schedlab.curated_programs() if p["ns"] == "cur9"]
    devs = schedlab.DEVS.replace("DevDoubleRelease = FALSE", "DevDoubleRelease = TRUE")
    res = schedlab.model_check(ctx, progs, dev=False, invariants=["HeldOK"], hang_report=False, workers=4,
                               devs=devs)
    expect_violation(res, "HeldOK", "Scheduler.tla with DevDoubleRelease (model-level control)")
    ctx.add_tlc(res)


def inductive_part(ctx: Ctx) -> None:
    """spec/apalache/LimitsInd.tla: the accounting core with ARBITRARY integer limits and demands; Apalache shows
    IndInv (used = what running jobs hold, 0 <= used <= limit) inductive, and not inductive with the pinned
    double release.  Thorough tier only (three JVM starts, ~40 s each on an idle machine)."""
    import shutil
    import subprocess

    if not shutil.which("apalache-mc"):
        ctx.note("apalache", "apalache-mc not on PATH: inductive check skipped")
        return
    out = ctx.tmp("apalache_out")
    runs = [("induction step", ["--cinit=ConstInit", "--init=IndInit", "--inv=IndInv", "--length=1"], True),
            ("initial states", ["--cinit=ConstInit", "--init=Init", "--inv=IndInv", "--length=0"], True),
            ("control: double release", ["--cinit=ConstInitDev", "--init=IndInit", "--inv=IndInv", "--length=1"], False)]
    res = {}
    for name, args, want_ok in runs:
        p = subprocess.run(["apalache-mc", "check", f"--out-dir={out}"] + args + ["LimitsInd.tla"],
                           cwd=str(VERIF / "spec" / "apalache"), capture_output=True, text=True, timeout=1800)
        ok = "EXITCODE: OK" in p.stdout
        err = "The outcome is: Error" in p.stdout
        res[name] = "no error" if ok else "invariant violated" if err else f"failed rc={p.returncode}"
        if not ok and not err:
            raise MachineryError(f"apalache-mc ({name}) failed: {p.stdout[-1500:]}{p.stderr[-500:]}")
        if want_ok and not ok:
            raise MachineryError(f"LimitsInd.tla: IndInv is not inductive ({name}): the accounting model is wrong\n{p.stdout[-1500:]}")
        if not want_ok:
            ctx.negative_control(err, "with the pinned double release the induction step must fail")
    shutil.rmtree(out, ignore_errors=True)
    ctx.note("apalache_inductive_invariant", res)


def run(ctx: Ctx) -> None:
    model_control(ctx)
    if not ctx.quick:
        inductive_part(ctx)
    ctx.assume("no job demands more units than a limit (premise shared with C09)",
               "single scheduler thread; executor completions arrive as queue events in any order")
    schedlab.suite(ctx, ON, n_random_progs=ctx.pick(4, 30), n_sim=ctx.pick(80, 1500),
                   n_random_hist=ctx.pick(40, 800), alt_limits=True, corrupt=_corrupt, tag="c08")
    # ---- the repository's own tests as a trace source: real thread / process pools -----------------
    mods = ctx.pick(["test_limits.py"],
                    ["test_limits.py", "test_scheduler.py", "test_errors.py", "test_handle.py", "test_context.py",
                     "test_functools.py", "test_tasks.py", "test_partial_task.py"])
    traces, stats = schedlab.suite_test_traces(ctx, mods, timeout=ctx.pick(600, 3000))
    ctx.note("suite_traces", stats)
    ctx.require(stats["judged"] >= ctx.pick(4, 40), f"too few executions recorded from the test-suite: {stats}")
    verdicts = schedlab.validate(ctx, traces, ON, "suite")
    for t, (acc, pos, why) in zip(traces, verdicts):
        ctx.count_impl_trace()
        if not acc:
            ctx.violation(f"execution recorded from the repository's test {t['hdr']['test']} rejected by clause "
                          f"'{why}' at event {pos}: {t['evs'][pos - 1] if pos - 1 < len(t['evs']) else None}",
                          {"test": t["hdr"]["test"], "clause": why, "events": t["evs"]})


def replay(ctx: Ctx, rec: dict) -> None:
    schedlab.replay_record(ctx, rec, ON)
