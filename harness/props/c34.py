"""
C34  Tag values survive display and re-parsing.

Spec: spec/seq/TagValue.tla transcribes redun/tags.py format_tag_value / parse_tag_value and
everything they delegate to (Python int() / float() text recognisers, json.dumps with sort_keys and
ensure_ascii, strict json.loads as a recursive-descent parser) over texts = sequences of code
points.  TLC checks on a bounded universe (TagValue_Gen.tla): Format total, Parse(Format(v)) = v,
strings stay strings -- for the contract (Fixed = TRUE) everywhere, for the as-built model
everywhere except through its two named deviations, which are exactly the failures.
Binding, both directions:
  spec -> code: every text / value of the universe is emitted with the text Format must give and
                the value Parse must give back; the real functions are run on each and compared
                (the parse result *kind* of every raw text is compared too, so the character-class
                abstraction is checked, not trusted).
  code -> spec: generated larger JSON values and adversarial strings go through the real
                functions; TLC evaluates Format / Parse / the law on every recorded triple.
"""

from __future__ import annotations

import json
import math
from decimal import Decimal

from ..core import Ctx
from ..tlc import expect_clean, expect_violation, run_tlc

META = {
    "level": "model_checking",
    "level_text": "TLC checks 'format never fails and parse(format(v)) = v' on every text of up to "
                  "3 (quick) / 4 (thorough) pieces over a confusable alphabet plus the JSON value "
                  "kinds, for the contract and for the as-built model (which fails exactly through "
                  "its two named deviations); the real functions are run on every enumerated case and "
                  "on thousands of generated values whose recorded outputs TLC validates.",
    "level_note": "Texts are sequences of code points over a bounded alphabet ([ ] { } \" \\ space , "
                  ": 0 1 - . e a _ and the words true/null/NaN/Infinity/nan/inf); float repr "
                  "(shortest round-trip digits) is an oracle taken from Python, not modelled; unicode "
                  "digits / exotic whitespace accepted by int()/float() are outside the abstraction "
                  "(the generator avoids them); format_tag_key_value's trimming to max_length (lossy by "
                  "design) and keys containing '=' are out of scope.",
    "technique": "explicit TLA+ decision table + transcribed JSON/number recognisers; TLC exhaustive "
                 "check of the round-trip law; spec->code replay of every enumerated case; code->spec "
                 "batched validation by TLC",
    "rule": "a case is one tag value; distinct = distinct value; non-trivial = a string that contains a "
            "character with a role in parsing (brackets, braces, quote, backslash, space, comma, digit, "
            "sign, dot, underscore) or is a literal word, or a non-string value",
}


def report(ctx: Ctx, what: str, replay_obj, key=None) -> None:
    """ctx.violation, but at most 50 replay files per run (the rest is counted in the evidence)."""
    if key is not None or len(ctx.violations) < 50:
        ctx.violation(what, replay_obj, key=key)
    else:
        ctx.cov["violations_not_written"] = ctx.cov.get("violations_not_written", 0) + 1


ERR_T = [-1]
ERR_V = {"k": "err", "v": 0}
KEYS = {1: "unparseable-json-prefix", 2: "json-string-literal-unquoted"}
ROLE = set(map(ord, '[]{}"\\ ,:0123456789-+._\n\t'))
WORDS = {"true", "false", "null", "nan", "inf", "infinity", "NaN", "Infinity"}


# ---------------------------------------------------------------------------- value mapping
def to_py(t):
    k, v = t["k"], t["v"]
    if k == "none":
        return None
    if k == "bool":
        return bool(v)
    if k == "int":
        n = 0
        for d in v[1:]:
            n = n * 10 + d
        return -n if v[0] else n
    if k == "float":
        return float(Decimal((v["s"], tuple(v["d"]) or (0,), v["e"])))
    if k == "fnan":
        return float("nan")
    if k == "finf":
        return -math.inf if v else math.inf
    if k == "str":
        return "".join(map(chr, v))
    if k == "list":
        return [to_py(e) for e in v]
    if k == "dict":
        return {"".join(map(chr, a)): to_py(b) for a, b in v}
    raise AssertionError(k)


def from_py(o):
    if o is None:
        return {"k": "none", "v": 0}
    if isinstance(o, bool):
        return {"k": "bool", "v": int(o)}
    if isinstance(o, int):
        n, ds = abs(o), []
        while n:
            n, r = divmod(n, 10)
            ds.append(r)
        return {"k": "int", "v": [1 if o < 0 else 0] + ds[::-1]} if ds else {"k": "int", "v": [0, 0]}
    if isinstance(o, float):
        if math.isnan(o):
            return {"k": "fnan", "v": 0}
        if math.isinf(o):
            return {"k": "finf", "v": int(o < 0)}
        s, d, e = Decimal(repr(o)).as_tuple()
        d = list(d)
        while d and d[0] == 0:
            d.pop(0)
        while d and d[-1] == 0:
            d.pop()
            e += 1
        return {"k": "float", "v": {"s": int(math.copysign(1, o) < 0), "d": d, "e": e if d else 0,
                                    "r": [ord(c) for c in repr(o)]}}
    if isinstance(o, str):
        return {"k": "str", "v": [ord(c) for c in o]}
    if isinstance(o, (list, tuple)):
        return {"k": "list", "v": [from_py(e) for e in o]}
    if isinstance(o, dict) and all(isinstance(a, str) for a in o):
        return {"k": "dict", "v": [[[ord(c) for c in a], from_py(o[a])] for a in sorted(o)]}
    return {"k": "other", "v": 0}


def same(a, b) -> bool:
    """Equality of JSON values that keeps int / float / bool / str apart."""
    if type(a) is not type(b):
        return False
    if isinstance(a, float):
        return (math.isnan(a) and math.isnan(b)) or (a == b and math.copysign(1, a) == math.copysign(1, b))
    if isinstance(a, list):
        return len(a) == len(b) and all(same(p, q) for p, q in zip(a, b))
    if isinstance(a, dict):
        return a.keys() == b.keys() and all(same(a[k], b[k]) for k in a)
    return a == b


class Raised:
    def __init__(self, e):
        self.e = e

    def __repr__(self):
        return f"<raised {type(self.e).__name__}: {self.e}>"


def real_format(obj):
    from redun.tags import format_tag_value

    try:
        r = format_tag_value(obj)
    except Exception as e:  # "never fails"
        return Raised(e)
    return r


def real_parse(text):
    from redun.tags import parse_tag_value

    try:
        return parse_tag_value(text)
    except Exception as e:
        return Raised(e)


def nontrivial(t) -> bool:
    if t["k"] != "str":
        return True
    return any(c in ROLE for c in t["v"]) or "".join(map(chr, t["v"])) in WORDS


def text_of(cps):
    return "".join(map(chr, cps))


# ---------------------------------------------------------------------------- TLC configs
ALPHA_Q = "{91, 93, 123, 125, 34, 92, 32, 44, 58, 49, 48, 45, 46, 101, 97, 95}"
ALPHA_T = "{91, 93, 123, 125, 34, 92, 32, 44, 58, 49, 48, 45, 43, 46, 101, 97, 95, 10, 233}"


def gen_cfg(ctx: Ctx, mode: str, invs, pieces=None, alpha=None, few=False) -> str:
    return ("SPECIFICATION Spec\nCONSTANTS\n"
            f" Mode = \"{mode}\"\n"
            f" Alpha = {alpha or ALPHA_Q}\n"
            f" MaxPieces = {pieces or 3}\n FewWords = {'TRUE' if few else 'FALSE'}\n"
            + "".join(f"INVARIANT {i}\n" for i in invs) + "CHECK_DEADLOCK FALSE\n")


LAWS = ("LawContract", "LawAsBuilt", "LawQuoted", "LawJson")


_reported: set = set()


class Tally:
    def __init__(self):
        self.drift: list = []
        self.keyed = {1: 0, 2: 0}


def judge(ctx: Ctx, x, dev: int, obj, fmt, back, source: str) -> bool:
    """The property on the real code for one value: format did not raise, parse gives it back."""
    if isinstance(fmt, Raised):
        what = f"format_tag_value({obj!r}) raises {type(fmt.e).__name__}: {fmt.e}"
    elif isinstance(back, Raised):
        what = f"parse_tag_value({fmt!r}) raises {type(back.e).__name__} (displayed form of {obj!r})"
    elif not same(back, obj):
        what = f"{obj!r} is displayed as {fmt!r}, which parses back as {back!r}"
    else:
        return True
    key = KEYS.get(dev)
    if key is None or key not in _reported:      # one witness per known deviation class, every other failure
        report(ctx, what, {"source": source, "x": x, "model_deviation": dev}, key=key)
    if key:
        _reported.add(key)
    return False


def check_case(ctx: Ctx, c: dict, tally: Tally, source: str) -> None:
    """spec -> code for one emitted case."""
    x, dev = c["x"], c["dev"]
    obj = to_py(x)
    fmt = real_format(obj)
    back = real_parse(fmt) if not isinstance(fmt, Raised) else None
    ctx.count_eval()
    ctx.count_impl_trace()
    if nontrivial(x):
        ctx.distinct(x)
    ok = judge(ctx, x, dev, obj, fmt, back, source)
    if not ok and dev:
        tally.keyed[dev] += 1
    # conformance with the model (what TLC's exhaustive result transfers through): the as-built
    # expectation, or -- on the inputs where the as-built model deviates -- the contract's
    m_fmt = ERR_T if isinstance(fmt, Raised) else [ord(ch) for ch in fmt]
    if dev and ok:
        conf = m_fmt == c["fmtc"]
    else:
        conf = m_fmt == c["fmt"]
        if conf and m_fmt != ERR_T:
            conf = (not isinstance(back, Raised) and c["back"]["k"] != "err" and same(back, to_py(c["back"]))) or \
                   (isinstance(back, Raised) and c["back"]["k"] == "err")
    if conf and x["k"] == "str":
        p = real_parse(obj)             # parse kind of the raw text: checks the class abstraction
        conf = (isinstance(p, Raised) and c["p"]["k"] == "err") or \
               (not isinstance(p, Raised) and c["p"]["k"] != "err" and same(p, to_py(c["p"])))
    if not conf:
        tally.drift.append({"x": x, "spec_fmt": c["fmt"], "real_fmt": repr(fmt), "real_back": repr(back)})


# ---------------------------------------------------------------------------- generator
def gen_string(rng) -> str:
    mode = rng.random()
    if mode < 0.35:
        alpha = '[]{}"\\ ,:10-+._eEa\n\t'
        return "".join(rng.choice(alpha) for _ in range(rng.randint(0, 8)))
    if mode < 0.5:     # numeric-looking
        return rng.choice(["", "-", "+", " "]) + rng.choice(
            ["1", "0", "007", "1_000", "1__0", "_1", "1_", "1.5", ".5", "5.", ".", "1e5", "1e", "e5", "1e+5", "1E-05",
             "1.5e300", "1e400", "1e-400", "0.1000000000000000055511151231257827", "12345678901234567890",
             "1_0.0_1e1_0", "1_.5", "1._5", "nan", "NaN", "nAn", "inf", "Infinity", "INFINITY", "infinit", "0x10",
             "1j", "١"[:0] + "9" * 30]) + rng.choice(["", "", " ", "\n", "a"])
    if mode < 0.62:    # literal-looking
        return rng.choice(["true", "false", "null", "True", "None", "TRUE", "nul", "truee", " true", "null "])
    if mode < 0.85:    # JSON-looking, valid or broken
        v = gen_value(rng, 2, strings_simple=True)
        s = json.dumps(v, sort_keys=rng.random() < 0.5, ensure_ascii=rng.random() < 0.5,
                       separators=rng.choice([(", ", ": "), (",", ":"), (" , ", " : ")]))
        c = rng.random()
        if c < 0.35 and s:
            i = rng.randrange(len(s))
            s = s[:i] + s[i + 1:]
        elif c < 0.5:
            s = s + rng.choice(["x", " ", ",", "]", '"'])
        elif c < 0.6:
            s = s.replace("1", "01", 1)
        return s
    if mode < 0.93:    # escapes
        return '"' + "".join(rng.choice(['\\n', '\\u00e9', '\\ud83d\\ude00', '\\ud83d', '\\ud83dx', '\\x', 'a', '\\"', '\\\\',
                                         '\\/', '\\u12', '\t', 'é', '\\uD83D\\u0041'])
                             for _ in range(rng.randint(0, 4))) + rng.choice(['"', '"', ''])
    return "".join(rng.choice("abcxyzé€\U0001f600-_/.:@") for _ in range(rng.randint(1, 12)))


def gen_value(rng, depth: int, strings_simple: bool = False):
    r = rng.random()
    if depth <= 0 or r < 0.55:
        a = rng.random()
        if a < 0.12:
            return rng.choice([None, True, False])
        if a < 0.3:
            return rng.choice([0, 1, -1, 10, 2**31, -(2**63), 10**25 + 1, rng.randint(-10**6, 10**6)])
        if a < 0.5:
            return rng.choice([0.0, -0.0, 1.0, 1.5, -2.5e-10, 1e16, 1e22, 1e-5, 1e-7, 0.1, 1 / 3, 5e-324, 1.7976931348623157e308,
                               123456789.125, math.inf, -math.inf, math.nan, rng.random() * 10 ** rng.randint(-20, 20)])
        if strings_simple:
            return "".join(rng.choice('ab1 ,"\\[é') for _ in range(rng.randint(0, 4)))
        return gen_string(rng)
    n = rng.choice([0, 1, 2, 3])
    if r < 0.8:
        return [gen_value(rng, depth - 1, strings_simple) for _ in range(n)]
    return {(gen_string(rng) if not strings_simple else rng.choice(["a", "b", "", '"', "é", "1"])):
            gen_value(rng, depth - 1, strings_simple) for _ in range(n)}


def ascii_model_safe(o) -> bool:
    """The abstraction does not cover unicode digits / exotic blanks inside numeric-looking text."""
    if isinstance(o, str):
        return all(ord(c) < 128 or not (c.isdigit() or c.isspace() or c.isnumeric()) for c in o)
    if isinstance(o, list):
        return all(ascii_model_safe(e) for e in o)
    if isinstance(o, dict):
        return all(ascii_model_safe(k) and ascii_model_safe(v) for k, v in o.items())
    return True


def record(obj) -> dict:
    fmt = real_format(obj)
    back = real_parse(fmt) if not isinstance(fmt, Raised) else None
    return {"x": from_py(obj),
            "fmt": ERR_T if isinstance(fmt, Raised) else [ord(c) for c in fmt],
            "back": ERR_V if (back is None and isinstance(fmt, Raised)) or isinstance(back, Raised) else from_py(back)}


def validate(ctx: Ctx, cases: list, what: str) -> dict:
    f = ctx.tmp(f"cases_{what}.json")
    f.write_text(json.dumps(cases))
    cfg = "SPECIFICATION Spec\nINVARIANT Verdict\nCHECK_DEADLOCK FALSE\n"
    res = run_tlc("seq/TagValue_Trace.tla", cfg, ctx.scratch, workers=4,
                  env={"TRACE_FILE": str(f), "JAVA_TOOL_OPTIONS": "-Xss256m"}, deadlock=False, timeout=1500, heap="8g")
    ctx.require(res.error is None and not res.violated,
                f"TLC failed validating recorded cases ({what}): {res.error} {res.violated}\n{res.out[-2000:]}")
    ctx.add_tlc(res)
    return {v[0]: v[1:] for v in res.recs("VERDICT")}


def run(ctx: Ctx) -> None:
    ctx.assume("tag values are JSON-compatible: None, bool, int, float, str, list, dict with str keys",
               "CPython int()/float()/json semantics; ASCII digits and blanks in numeric-looking text",
               "float repr is taken from Python (oracle), not modelled")
    tally = Tally()
    _reported.clear()

    # ---- 1. model-level control: the as-built model violates the strict law ---------------------
    r = expect_violation(run_tlc("seq/TagValue_Gen.tla", gen_cfg(ctx, "strings", ("LawStrictAsBuilt",), 2),
                                 ctx.scratch, workers=4, deadlock=False, timeout=600), "LawStrictAsBuilt",
                         "TagValue.tla as-built strict control")
    ctx.add_tlc(r)
    ctx.negative_control(True, "the as-built model violates the strict round-trip law (only the contract satisfies it)")

    # ---- 2. contract holds everywhere, as-built model fails exactly through the named deviations;
    #         every case is emitted with the as-built expectation ---------------------------------
    all_cases = []
    # quick: texts of <= 3 pieces over 16 characters + 8 words.  thorough: <= 3 pieces over the wider
    # alphabet (+ sign, newline, a non-ASCII letter), then <= 4 pieces over 16 characters + 4 words
    runs = [("strings", 3, ALPHA_Q, False), ("values", 3, ALPHA_Q, False)] if ctx.quick else \
           [("strings", 3, ALPHA_T, False), ("values", 3, ALPHA_Q, False), ("strings", 4, ALPHA_Q, True)]
    for mode, pieces, alpha, few in runs:
        r = expect_clean(run_tlc("seq/TagValue_Gen.tla", gen_cfg(ctx, mode, LAWS + ("Emit",), pieces, alpha, few),
                                 ctx.scratch, workers=4 if pieces < 4 else "auto", deadlock=False, timeout=2400, heap="12g"),
                         f"TagValue.tla laws ({mode}, {pieces} pieces)")
        ctx.add_tlc(r)
        cases = r.recs("CASE")
        ctx.require(len(cases) > 300, f"emitted only {len(cases)} cases ({mode})")
        ctx.note(f"universe_{mode}_{pieces}", len(cases))
        all_cases += cases
        for c in cases:
            check_case(ctx, c, tally, f"tlc-universe-{mode}-{pieces}")
    ex = next(c for c in all_cases if c["dev"] == 0 and c["x"]["k"] == "str" and len(c["x"]["v"]) >= 3 and c["fmt"][0] == 34)
    ctx.sample({"source": "tlc-universe", "value": repr(to_py(ex["x"])), "spec_format": text_of(ex["fmt"]),
                "spec_parse_of_raw_text": json.dumps(ex["p"], separators=(",", ":"))})
    ex = next(c for c in all_cases if c["x"]["k"] == "dict" and len(c["x"]["v"]) == 2)
    ctx.sample({"source": "tlc-universe", "value": repr(to_py(ex["x"])), "spec_format": text_of(ex["fmt"])})
    # comparison-level negative control: a flipped expectation must be noticed
    probe = next(c for c in all_cases if c["dev"] == 0 and c["x"]["k"] == "str" and c["fmt"] == c["x"]["v"] and c["x"]["v"])
    t2 = Tally()
    check_case(ctx, dict(probe, fmt=[34] + probe["fmt"] + [34]), t2, "control")
    ctx.cov["evaluations"] -= 1
    ctx.cov["traces_validated_against_impl"] -= 1
    ctx.negative_control(len(t2.drift) == 1, "a flipped expected display text must be noticed by the comparison")

    # ---- 3. code -> spec: generated values through the real functions, validated by TLC --------
    n = ctx.pick(3000, 40000)
    objs = []
    while len(objs) < n:
        o = gen_string(ctx.rng) if ctx.rng.random() < 0.55 else gen_value(ctx.rng, ctx.rng.choice([1, 2, 3]))
        if ascii_model_safe(o):
            objs.append(o)
    recs = [record(o) for o in objs]
    goodi = [i for i, r in enumerate(recs) if r["fmt"] != ERR_T and r["back"]["k"] == "list" and len(r["back"]["v"]) >= 1]
    ctx.require(len(goodi) > 5, "generator produced too few list values")
    bad1 = json.loads(json.dumps(recs[goodi[0]]))
    bad1["back"]["v"] = bad1["back"]["v"][:-1]           # the parsed value lost an element
    bad2 = json.loads(json.dumps(recs[goodi[1]]))
    bad2["fmt"] = bad2["fmt"][:-1]                       # the displayed text lost its closing bracket
    recs += [bad1, bad2]
    verdicts = validate(ctx, recs, "generated")
    ctx.require(len(verdicts) == len(recs), f"verdicts {len(verdicts)} != cases {len(recs)}")
    ctx.negative_control(verdicts[len(recs) - 1][2] == 0, "a recorded parse result that lost an element must fail the law in TLC")
    ctx.negative_control(verdicts[len(recs)][0] == 0, "a corrupted recorded display text must be rejected by TLC")
    for i, (o, rec) in enumerate(zip(objs, recs[:-2]), start=1):
        fmt_ok, parse_ok, law_ok, dev = verdicts[i]
        ctx.count_eval()
        ctx.count_impl_trace()
        if nontrivial(rec["x"]):
            ctx.distinct(rec["x"])
        if not law_ok:
            fmt = real_format(o)
            back = real_parse(fmt) if not isinstance(fmt, Raised) else None
            if judge(ctx, rec["x"], dev, o, fmt, back, "generated"):
                ctx.require(False, f"TLC rejects the law on a recorded case that holds on re-execution: {rec}")
            if dev:
                tally.keyed[dev] += 1
        elif not (fmt_ok and parse_ok):
            tally.drift.append({"x": rec["x"], "real_fmt": text_of(rec["fmt"]) if rec["fmt"] != ERR_T else "raised",
                                "verdict": verdicts[i]})
    ctx.sample({"source": "generated (validated by TLC)", "value": repr(objs[goodi[2]])[:400],
                "real_format": text_of(recs[goodi[2]]["fmt"])[:400]})
    ctx.note("generated_cases", n)
    ctx.note("deviation_hits", {KEYS[k]: v for k, v in tally.keyed.items()})
    ctx.note("asbuilt_drift", {"count": len(tally.drift), "first": tally.drift[:3]})
    if tally.drift:
        print(f"[C34] note: the real functions differ from the as-built model TagValue.tla on {len(tally.drift)} cases "
              f"where the property itself holds (as-built drift), e.g. {tally.drift[0]}")

    # ---- 4. key=value composition (neighbouring behaviour, short values only) -------------------
    from redun.tags import format_tag_key_value, parse_tag_key_value

    for o in objs[: ctx.pick(500, 5000)]:
        f = real_format(o)
        if isinstance(f, Raised) or len(f) > 50:
            continue
        try:
            k, v = parse_tag_key_value(format_tag_key_value("key.name", o))
        except Exception as e:
            k, v = None, Raised(e)
        ctx.count_eval()
        b = real_parse(f)
        if not isinstance(b, Raised) and same(b, o) and not (k == "key.name" and not isinstance(v, Raised) and same(v, o)):
            report(ctx, f"key=value form of {o!r} does not parse back: {format_tag_key_value('key.name', o)!r} -> {(k, v)!r}",
                          {"source": "key-value", "x": from_py(o)})


def replay(ctx: Ctx, rec: dict) -> None:
    r = rec["replay"]
    if "x" in r:
        obj = to_py(r["x"])
        case = record(obj)
        v = validate(ctx, [case], "replay")[1]
        if not v[2]:
            fmt = real_format(obj)
            judge(ctx, r["x"], v[3], obj, fmt, real_parse(fmt) if not isinstance(fmt, Raised) else None, "replay")
    else:
        run(ctx)
