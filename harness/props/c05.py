"""
C05  Results are never shared between calls with different contexts.

Spec: spec/eval/Eval.tla gives every call the value of its own context (a job's context is its
parent's merged with the call's override; nothing in the semantics lets a result travel between
contexts); Eval_ShareGen enumerates histories of two executions on one backend, each evaluating two
calls of the same task with the same arguments under contexts from {none, {a:{b:9}}, {a:{b:8}}},
sequentially (seq: the first has finished and is recorded when the second starts -> backend CSE /
cache path) or in parallel (list -> pending-job collapse path), for tasks with full and with shallow
validity checking and for parents of such tasks.  TLC checks the law NoSharing on the model and prints
every history with the values each call must return.
Binding: spec -> code every sampled history runs on the real scheduler (same sqlite backend for both
executions, seeded random schedules); code -> spec seeded random longer mixes are judged by TLC
(Eval_Oracle).  The three sharing mechanisms of the code (pending-job collapse keyed by
(eval_hash, context_hash), CSE lookup, shallow _get_call_node lookup) are all on these paths.
"""

from __future__ import annotations

import copy
import json
import os

from ..core import Ctx
from ..tlc import run_tlc
from .. import evallab as EL, simloop
from .c01 import admits

META = {
    "level": "model_checking",
    "level_text": "TLC checks NoSharing on the semantics and enumerates two-execution histories of "
                  "same-call pairs under different contexts (72 run shapes squared = 5184 histories; quick runs a stride "
                  "sample); each history is executed on the real scheduler against one backend and every "
                  "call's value compared with the value of its own context.",
    "level_note": "Sharing is observed through values: the tasks return what get_context reads, so a result "
                  "that travelled between contexts is a wrong value. Contexts are small nested dicts.",
    "technique": "explicit TLA+ semantics evaluated by TLC (law + enumeration); spec->code history replay "
                 "on one backend; code->spec outcome validation",
    "rule": "a case is a history of two executions (4 calls); distinct by JSON; non-trivial = at least two "
            "of the four calls of one task run under different contexts",
}


def run_history(ctx: Ctx, exprs: list, tag: str) -> list:
    """Run the expressions one after the other on the same backend; returns the outcomes."""
    db = simloop.clone_db(ctx.scratch, f"c05_{tag}.db")
    outs = []
    for e in exprs:
        bk = simloop.open_backend(db)
        try:
            s, d = simloop.make_scheduler(bk, limits={}, chooser=simloop.RandomChooser(ctx.rng, 0.5),
                                          executors=("default", "process"))
            outs.append(EL.outcome_of(simloop.run_controlled(s, d, EL.build(e))))
        finally:
            simloop.close_backend(bk)
    try:
        os.unlink(db)
    except OSError:
        pass
    return outs


def _nontrivial(case) -> bool:
    ctxs = {}
    for e in (case["e1"], case["e2"]):
        for it in e["items"]:
            ctxs.setdefault(it["t"], set()).add(json.dumps(it["ctx"], sort_keys=True))
    return any(len(v) >= 2 for v in ctxs.values())


def run(ctx: Ctx) -> None:
    ctx.assume("results are observed as values returned by context-reading tasks")
    stride = ctx.pick(23, 2)
    cfg = (f"SPECIFICATION Spec\nCONSTANT Stride = {stride}\nCONSTANT Offset = {1 + ctx.seed % stride}\n"
           "INVARIANT NoSharing\nCHECK_DEADLOCK FALSE\n")
    res = run_tlc("eval/Eval_ShareGen.tla", cfg, ctx.scratch, workers=1, timeout=2400, heap="6g")
    ctx.require(res.error is None and not res.violated, f"Eval_ShareGen failed: {res.error} {res.violated}\n{res.out[-1500:]}")
    ctx.add_tlc(res)
    cases = res.recs("CASE")
    ctx.require(len(cases) >= 150, f"too few histories: {len(cases)}")
    ctx.note("histories_in_universe", 72 * 72)
    ctx.note("histories_run", len(cases))
    for n, c in enumerate(cases):
        o1, o2 = run_history(ctx, [c["e1"], c["e2"]], f"g{n}")
        ctx.count_eval()
        ctx.count_impl_trace()
        if _nontrivial(c):
            ctx.distinct([c["e1"], c["e2"]])
        for which, e, outs, obs in ((1, c["e1"], c["outs1"], o1), (2, c["e2"], c["outs2"], o2)):
            if not admits(outs, obs):
                ctx.violation(
                    f"execution {which} of the history returned {json.dumps(obs)[:300]}; every call must "
                    f"return the value of its own context: {json.dumps(outs)[:300]} "
                    f"(calls: {[(i['t'], i['ctx']) for i in e['items']]}, form {e['k']})",
                    {"e1": c["e1"], "e2": c["e2"], "which": which, "obs": obs, "outs": outs})
    ctx.sample({"source": "Eval_ShareGen", "history": {"e1": cases[len(cases) // 2]["e1"], "e2": cases[len(cases) // 2]["e2"]},
                "expected": [cases[len(cases) // 2]["outs1"], cases[len(cases) // 2]["outs2"]]})

    # ---- code -> spec: longer random mixes, three executions on one backend -----------------------
    rcases, groups = [], []
    tasks = ["ctxget", "ctxget_sh", "ctxmid", "ctxmid_sh"]
    cx = [None, {"a": {"b": 9}}, {"a": {"b": 8}}, {"a": {"b": 9}, "c": 1}]
    for g in range(ctx.pick(40, 500)):
        exprs = []
        for _ in range(3):
            items = [EL.call(ctx.rng.choice(tasks), ctx=ctx.rng.choice(cx)) for _ in range(ctx.rng.randint(2, 4))]
            exprs.append({"k": ctx.rng.choice(["seq", "list"]), "items": items})
        obs = run_history(ctx, exprs, f"r{g}")
        for e, o in zip(exprs, obs):
            rcases.append({"id": len(rcases) + 1, "e": e, "ctx": EL.to_value({}), "run": EL.to_value({}), "obs": o})
        groups.append(exprs)
    # siblings of ONE parent with different overrides (or none) that read the same variable with the same default
    # through a default argument, the parent reading it too: each call must see its own context
    for g in range(ctx.pick(40, 400)):
        ovs = [None if ctx.rng.random() < 0.35 else {"a": {"b": ctx.rng.randint(1, 9)}} for _ in range(ctx.rng.randint(2, 4))]
        e = EL.call("cfan", EL.V(ovs))
        rc = {"a": {"b": ctx.rng.randint(1, 9)}} if ctx.rng.random() < 0.5 else {}
        db = simloop.clone_db(ctx.scratch, f"c05_f{g}.db")
        bk = simloop.open_backend(db)
        try:
            s_, d_ = simloop.make_scheduler(bk, limits={}, chooser=simloop.RandomChooser(ctx.rng, 0.5),
                                            executors=("default", "process"))
            o = EL.outcome_of(simloop.run_controlled(s_, d_, EL.build(e), context=rc))
        finally:
            simloop.close_backend(bk)
            try:
                os.unlink(db)
            except OSError:
                pass
        rcases.append({"id": len(rcases) + 1, "e": e, "ctx": EL.to_value({}), "run": EL.to_value(rc), "obs": o})
    bad = copy.deepcopy(rcases[0])
    bad["id"] = len(rcases) + 1
    bad["obs"] = {"t": "list", "v": [{"t": "int", "v": 777}] * len(bad["e"]["items"])}
    rcases.append(bad)
    verdicts = EL.judge(ctx, rcases, "share")
    ctx.negative_control(not verdicts[bad["id"]][0], "a value that belongs to no context must be rejected")
    for c in rcases[:-1]:
        acc, n, exp = verdicts[c["id"]]
        ctx.count_impl_trace()
        if not acc:
            ctx.violation(f"[random history] execution returned {json.dumps(c['obs'])[:300]}; admits "
                          f"{json.dumps(exp)[:300]}", {"e": c["e"], "obs": c["obs"]})
    for g in groups:
        ctx.count_eval()
        ctx.distinct(g)


def replay(ctx: Ctx, rec: dict) -> None:
    r = rec["replay"]
    exprs = [r["e1"], r["e2"]] if "e1" in r else [r["e"]]
    obs = run_history(ctx, exprs, "replay")
    cases = [{"id": i + 1, "e": e, "ctx": EL.to_value({}), "run": EL.to_value({}), "obs": o}
             for i, (e, o) in enumerate(zip(exprs, obs))]
    v = EL.judge(ctx, cases, "replay")
    for c in cases:
        if not v[c["id"]][0]:
            ctx.violation(f"replayed execution returned {c['obs']}; admits {v[c['id']][2]}", r)
