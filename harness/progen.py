"""
Program documents shared by TLC (Scheduler.tla reads them with JsonDeserialize) and the real
scheduler (a generated importable module of @task functions, so that source hashing, reloading
after an edit and process workers behave as for a user).

Program (the "calls" grammar of Scheduler.tla):
  {"ns": str, "res": [names], "limits": {r: n}, "root": {"t": task, "arg": int},
   "tasks": {name: {"units": {r: n}, "vers": [VER, VER?]}},
   "plan": [{"k": "run", "mode": "real"|"dry", "cache": bool} | {"k": "edit", "t": task}]}
  VER = {"kind": "leaf"|"fail"|"calls", "add": int, "children": [CH]}
  CH  = {"t": task, "k": "c"|"s"|"p", "v": int, "i": int}
        c: constant argument v;  s: the result of sibling number i (1-based);  p: parent's arg + v
Semantics: leaf returns arg + add; fail raises ValueError; calls returns the (lazy) sum of its
children.  A task's version (1-based) is part of its hash; an edit moves it to its other version.
"""

from __future__ import annotations

import importlib.util
import json
import sys
from pathlib import Path
from typing import Any, Optional

_counter = [0]


def render_task(ns: str, name: str, tdef: dict, ver: int, extra_opts: Optional[dict] = None,
                hmap: Optional[dict] = None) -> str:
    """hmap: task name -> takes a handle as first argument (the parent's own handle `hh`)."""
    hmap = hmap or {}
    v = tdef["vers"][ver - 1]
    units = {k: n for k, n in tdef.get("units", {}).items() if n}
    opts = [f'name="{name}"', f'namespace="{ns}"']
    if units:
        opts.append(f"limits={units!r}")
    if tdef.get("scope", "BACKEND") != "BACKEND":
        opts.append(f'cache_scope="{tdef["scope"]}"')
    if tdef.get("sh") or tdef.get("as"):
        opts.append('check_valid="shallow"')
    if tdef.get("as"):
        opts.append("cache=True")   # async tasks must state their cache option
    for k, val in (tdef.get("opts") or {}).items():
        opts.append(f"{k}={val!r}")
    for k, val in (extra_opts or {}).items():
        opts.append(f"{k}={val!r}")
    if v["kind"] == "noexec":
        opts.append('executor="no_such_executor"')
    takes_h = bool(tdef.get("h"))
    # "as": an async def task (no single reduction for it; its lookups are ultimate reductions)
    kw = "async def" if tdef.get("as") else "def"
    lines = [f"@task({', '.join(opts)})", f"{kw} {name}({'h, ' if takes_h else ''}x):"]
    lines.append(f"    # version {ver}")
    if v["kind"] in ("leaf", "noexec"):
        lines.append(f"    return x + {v['add']}")
    elif v["kind"] == "const":
        lines.append(f"    return {v['add']}")
    elif v["kind"] == "fail":
        lines.append(f'    raise ValueError("boom:{name}:%s" % (x,))')
    else:
        kids = v["children"]
        if any(hmap.get(c["t"]) for c in kids):
            lines.append('    hh = VH("conn")')
        for i, c in enumerate(kids, 1):
            if c["k"] == "c":
                arg = str(c["v"])
            elif c["k"] == "s":
                arg = f"c{c['i']}"
            else:
                arg = f"x + {c['v']}"
            callee = c["t"]
            if c.get("u"):   # call-time limits: replace the task's own
                callee = f"{c['t']}.options(limits={dict(c['u'])!r})"
            call = f"{callee}({'hh, ' if hmap.get(c['t']) else ''}{arg})"
            if c.get("g"):
                call = f"catch({call}, Exception, rec)"
            lines.append(f"    c{i} = {call}")
        if kids:
            lines.append("    return " + " + ".join(f"c{i}" for i in range(1, len(kids) + 1)))
        else:
            lines.append(f"    return x + {v['add']}")
    return "\n".join(lines) + "\n"


def task_order(prog: dict) -> list[str]:
    """Callees before callers (bodies refer to module globals at call time, so any order works;
    a stable order keeps the source deterministic)."""
    return sorted(prog["tasks"])


def render_module(prog: dict, vers: dict[str, int]) -> str:
    src = ["from redun import task, Handle", "from redun.scheduler import catch", "", "",
           "class VH(Handle):", "    def __init__(self, name):", "        self.n = name", "", ""]
    hmap = {t: bool(d.get("h")) for t, d in prog["tasks"].items()}
    for name in task_order(prog):
        src.append(render_task(prog["ns"], name, prog["tasks"][name], vers.get(name, 1), hmap=hmap))
    return "\n".join(src)


class ProgramModule:
    """A generated module on disk; `load(vers)` (re)writes and (re)imports it."""

    def __init__(self, prog: dict, scratch: Path):
        self.prog = prog
        _counter[0] += 1
        self.modname = f"vpmod_{prog['ns']}_{_counter[0]}"
        self.dir = scratch / "mods"
        self.dir.mkdir(parents=True, exist_ok=True)
        self.path = self.dir / f"{self.modname}.py"
        self.mod: Any = None
        self.gen = 0

    def load(self, vers: dict[str, int]):
        import linecache

        normalize(self.prog)
        self.path.write_text(render_module(self.prog, vers))
        linecache.checkcache(str(self.path))
        self.gen += 1
        spec = importlib.util.spec_from_file_location(self.modname, self.path)
        mod = importlib.util.module_from_spec(spec)
        sys.modules[self.modname] = mod
        spec.loader.exec_module(mod)
        self.mod = mod
        return mod

    def root_expr(self):
        r = self.prog["root"]
        return getattr(self.mod, r["t"])(r["arg"])

    def unload(self) -> None:
        sys.modules.pop(self.modname, None)


def normalize(prog: dict) -> dict:
    """Fill optional fields so that TLC sees uniform records."""
    guarded = False
    for t in prog["tasks"].values():
        t.setdefault("h", 0)
        t.setdefault("scope", "BACKEND")
        t.setdefault("sh", 0)
        t.setdefault("as", 0)
        t.setdefault("units", {})
        for v in t["vers"]:
            for c in v["children"]:
                c.setdefault("g", 0)
                c.setdefault("u", {})
                guarded = guarded or bool(c["g"])
    # the recover task of guarded (catch) children is always declared, so that TLC sees one shape
    prog["tasks"].setdefault("rec", {"units": {}, "h": 0, "scope": "BACKEND", "sh": 0, "as": 0,
                                     "vers": [{"kind": "const", "add": -7, "children": []}]})
    prog["tnames"] = sorted(prog["tasks"])
    return prog


def write_program(prog: dict, path: Path) -> Path:
    path.write_text(json.dumps(prog))
    return path


# ------------------------------------------------------------------------------------------------
# random programs of the "calls" grammar (stratified: main -> mid/leaf/bad, mid -> leaf/bad/sub)
# ------------------------------------------------------------------------------------------------
PLANS = [
    [{"k": "run", "mode": "real", "cache": True}],
    [{"k": "run", "mode": "real", "cache": True}, {"k": "run", "mode": "real", "cache": True}],
    [{"k": "run", "mode": "real", "cache": True}, {"k": "edit", "t": "leaf"},
     {"k": "run", "mode": "real", "cache": True}],
    [{"k": "run", "mode": "real", "cache": True}, {"k": "run", "mode": "dry", "cache": True},
     {"k": "run", "mode": "real", "cache": True}],
    [{"k": "run", "mode": "real", "cache": True}, {"k": "edit", "t": "leaf"},
     {"k": "run", "mode": "dry", "cache": True}, {"k": "run", "mode": "real", "cache": True}],
    [{"k": "run", "mode": "dry", "cache": True}, {"k": "run", "mode": "real", "cache": True}],
    [{"k": "run", "mode": "real", "cache": True}, {"k": "edit", "t": "bad"},
     {"k": "run", "mode": "real", "cache": True}],
    [{"k": "run", "mode": "real", "cache": True}, {"k": "run", "mode": "real", "cache": False}],
    [{"k": "run", "mode": "real", "cache": True}, {"k": "edit", "t": "mid"},
     {"k": "run", "mode": "dry", "cache": True}, {"k": "run", "mode": "real", "cache": True}],
]


def random_program(rng, ns: str, max_kids: int = 4, p_fail: float = 0.25, plan: Optional[list] = None,
                   limits: Optional[dict] = None) -> dict:
    res = ["r"] if rng.random() < 0.75 else ["r", "q"]
    if limits is None:
        limits = {r: rng.choice([1, 1, 2]) for r in res}
        if rng.random() < 0.15:
            limits.pop(res[-1])  # unconfigured resource: limit 1 by default

    def units(p):
        u = {}
        for r in res:
            if rng.random() < p:
                u[r] = 1 if rng.random() < 0.8 else min(2, limits.get(r, 1))
        return u

    small = [1, 2, 3, 5]

    def kids(callees, n, allow_s=True):
        out = []
        for i in range(1, n + 1):
            t = rng.choice(callees)
            mode = rng.random()
            if allow_s and i > 1 and mode < 0.25:
                out.append({"t": t, "k": "s", "v": 0, "i": rng.randint(1, i - 1)})
            elif mode < 0.45:
                out.append({"t": t, "k": "p", "v": rng.choice([0, 1]), "i": 0})
            else:
                out.append({"t": t, "k": "c", "v": rng.choice(small), "i": 0})
        return out

    def with_overrides(ks):
        for c in ks:
            if rng.random() < 0.15 and c["t"] in ("leaf", "leaf2", "mid"):
                r = rng.choice(res)
                c["u"] = {r: rng.randint(1, max(1, limits.get(r, 1)))}
        return ks

    guard_bad = rng.random() < 0.5   # calls of the failing task are wrapped in catch(...)
    has_bad = rng.random() < p_fail
    has_h = rng.random() < 0.4
    leafs = ["leaf", "leaf", "leaf2"] + (["bad"] if has_bad else []) + (["use", "use"] if has_h else [])
    mids = ["mid"] + leafs
    tasks = {
        "leaf": {"units": units(0.7), "vers": [{"kind": "leaf", "add": 1, "children": []},
                                                {"kind": "leaf", "add": 11, "children": []}]},
        "leaf2": {"units": units(0.4), "scope": rng.choice(["BACKEND", "BACKEND", "NONE", "CSE"]),
                  "vers": [{"kind": "leaf", "add": 2, "children": []}]},
        "use": {"units": units(0.6), "h": 1, "vers": [{"kind": "leaf", "add": 4, "children": []}]},
        "bad": {"units": units(0.5), "vers": [{"kind": "fail" if rng.random() < 0.7 else "noexec", "add": 0,
                                                "children": []},
                                               {"kind": "leaf", "add": 3, "children": []}]},
        "mid": {"units": units(0.15), "sh": 1 if rng.random() < 0.35 else 0,
                "vers": [{"kind": "calls", "add": 0, "children": with_overrides(kids(leafs, rng.randint(1, 3)))},
                         {"kind": "calls", "add": 0, "children": kids(leafs, rng.randint(1, 2))}]},
        "main": {"units": {}, "vers": [{"kind": "calls", "add": 0,
                                        "children": with_overrides(kids(mids, rng.randint(2, max_kids)))}]},
    }
    # a demand above the limit can never be served (excluded by the premise of C09)
    for t in tasks.values():
        for r, n in list(t["units"].items()):
            if n > limits.get(r, 1):
                t["units"][r] = limits.get(r, 1)
    if guard_bad:
        for t in tasks.values():
            for v in t["vers"]:
                for c in v["children"]:
                    if c["t"] == "bad" and c["k"] != "s":
                        c["g"] = 1
    if plan is None:
        plan = rng.choice(PLANS)
    if guard_bad:
        # an edit of a guarded task after its recovery was cached is the C02 catch finding; keep it
        # out of the scheduler-group programs
        plan = [st for st in plan if not (st["k"] == "edit" and st["t"] == "bad")]
    plan = [st for st in plan if st["k"] != "edit" or len(tasks[st["t"]]["vers"]) > 1]
    return normalize({"ns": ns, "res": res, "limits": limits,
                      "root": {"t": "main", "arg": rng.choice([0, 1])}, "tasks": tasks, "plan": plan})
