"""
Repository generator shared by C23 / C33 (builder-db): small seeded random workflows executed by
the REAL scheduler under the controlled loop (harness/simloop.py) against sqlite files.

A workflow is a JSON-able tree `spec`; the interpreting task `node(spec)` returns the redun
expression the tree denotes, so every inner tree node is a *parent job* of the calls it makes:

    ["lit", n]              n
    ["inc", s]              inc(node(s))
    ["add", s1, s2]         add(node(s1), node(s2))
    ["pack", s1, s2]        pack(node(s1), node(s2))        list result
    ["boom", n]             boom(n)                          raises ValueError
    ["catch", s]            catch(node(s), ValueError, rec)
    ["file", name, text]    wfile(<dir>/name, text)          File value (File row)
    ["files", n1, n2]       wfiles(<dir>/n1, <dir>/n2)       list of Files (Subvalue rows)
    ["jtag", s, k, v]       inc.options(tags=[(k, v)])(node(s))         job tag
    ["vtag", s, k, v]       apply_tags(node(s), tags=[(k, v)])          value tag
    ["deep", n]             deep(n) -> dleaf(n) -> dleaf2(n); `deep` is declared check_valid="shallow":
                            once recorded, a later execution that calls deep(n) again is answered by
                            ultimate reduction -- it has a (cached) job for deep and NO job for dleaf /
                            dleaf2, whose call nodes are reachable only through call edges

Equal subtrees under different parents are different jobs with the same eval hash: the second is
collapsed into the first while that one is pending (CSE of pending jobs) or served from the
backend's CSE lookup afterwards -- with a failing subtree this is what records a job with
cached = True and an ErrorValue result.
"""

from __future__ import annotations

import os
from pathlib import Path
from typing import Any, Optional

from redun import File, task
from redun.scheduler import apply_tags, catch

from . import simloop

NS = "vdb"
_DIR = {"dir": "/tmp"}


def set_file_dir(d: Path) -> None:
    _DIR["dir"] = str(d)


@task(namespace=NS, name="inc")
def inc(x):
    return x + 1


@task(namespace=NS, name="add")
def add(a, b):
    return a + b


@task(namespace=NS, name="pack")
def pack(a, b):
    return [a, b]


@task(namespace=NS, name="boom")
def boom(x):
    raise ValueError(f"boom {x}")


@task(namespace=NS, name="rec")
def rec(e):
    return -1


@task(namespace=NS, name="wfile")
def wfile(path, text):
    f = File(path)
    f.write(text)
    return f


@task(namespace=NS, name="wfiles")
def wfiles(p1, p2):
    out = []
    for p in (p1, p2):
        f = File(p)
        f.write("content of " + os.path.basename(p))
        out.append(f)
    return out


@task(namespace=NS, name="dleaf2")
def dleaf2(x):
    return x * 2


@task(namespace=NS, name="dleaf")
def dleaf(x):
    return dleaf2(x)


@task(namespace=NS, name="deep", check_valid="shallow")
def deep(x):
    return dleaf(x)


@task(namespace=NS, name="node")
def node(spec):
    k = spec[0]
    if k == "lit":
        return spec[1]
    if k == "inc":
        return inc(node(spec[1]))
    if k == "add":
        return add(node(spec[1]), node(spec[2]))
    if k == "pack":
        return pack(node(spec[1]), node(spec[2]))
    if k == "boom":
        return boom(spec[1])
    if k == "deep":
        return deep(spec[1])
    if k == "catch":
        return catch(node(spec[1]), ValueError, rec)
    if k == "file":
        return wfile(os.path.join(_DIR["dir"], spec[1]), spec[2])
    if k == "files":
        return wfiles(os.path.join(_DIR["dir"], spec[1]), os.path.join(_DIR["dir"], spec[2]))
    if k == "jtag":
        return inc.options(tags=[(spec[2], spec[3])])(node(spec[1]))
    if k == "vtag":
        return apply_tags(node(spec[1]), tags=[(spec[2], spec[3])])
    raise AssertionError(k)


# ------------------------------------------------------------------------------------------------
# random specs
# ------------------------------------------------------------------------------------------------
def gen_spec(rng, depth: int, p_boom: float = 0.15, files: bool = False, tags: bool = False,
             pool: Optional[list] = None, deep: bool = False) -> list:
    """Random tree; `pool` collects subtrees so that later choices can repeat one (CSE twins)."""
    if pool is None:
        pool = []
    if pool and rng.random() < 0.25:
        return rng.choice(pool)
    if depth <= 0:
        r = rng.random()
        if deep and rng.random() < 0.3:   # (extra draw only when asked for: other users' streams unchanged)
            s: list = ["deep", rng.randint(1, 2)]
        elif r < p_boom:
            s = ["boom", rng.randint(1, 2)]
        elif files and r < p_boom + 0.2:
            s = ["file", f"f{rng.randint(1, 3)}.txt", f"text{rng.randint(1, 2)}"]
        elif files and r < p_boom + 0.3:
            s = ["files", f"g{rng.randint(1, 2)}.txt", f"h{rng.randint(1, 2)}.txt"]
        else:
            s = ["lit", rng.randint(1, 3)]
    else:
        kinds = ["inc", "add", "add", "pack", "catch"]
        if tags:
            kinds += ["jtag", "vtag"]
        k = rng.choice(kinds)
        sub = lambda: gen_spec(rng, depth - 1 - (rng.random() < 0.3), p_boom, files, tags, pool, deep)  # noqa
        if k in ("inc", "catch"):
            s = [k, sub()]
        elif k in ("add", "pack"):
            s = [k, sub(), sub()]
        else:
            s = [k, sub(), rng.choice(["env", "owner"]), rng.choice(["a", "b", 1])]
    pool.append(s)
    return s


def has_file(spec) -> bool:
    return isinstance(spec, list) and (spec[0] in ("file", "files")
                                       or any(has_file(x) for x in spec[1:]))


# ------------------------------------------------------------------------------------------------
# running
# ------------------------------------------------------------------------------------------------
class Abort(Exception):
    """Raised from the choice point: the process running the workflow 'dies' here."""


class AbortingChooser(simloop.Chooser):
    """Random schedule; after `limit` choices the run is cut (jobs started, never ended)."""

    def __init__(self, rng, limit: Optional[int] = None, p_finish: float = 0.5):
        self.inner = simloop.RandomChooser(rng, p_finish)
        self.limit = limit
        self.n = 0

    def choose(self, choices, d):
        self.n += 1
        if self.limit is not None and self.n > self.limit:
            raise Abort()
        return self.inner.choose(choices, d)


def run_spec(db_path: Path, spec: list, rng=None, abort_after: Optional[int] = None,
             exec_tags=()) -> dict:
    """One execution of node(spec) in a fresh Scheduler on the sqlite file `db_path`."""
    be = simloop.open_backend(db_path)
    try:
        chooser: Any
        if rng is None and abort_after is None:
            chooser = simloop.Chooser()
        else:
            import random

            chooser = AbortingChooser(rng or random.Random(0), abort_after)
        s, d = simloop.make_scheduler(be, chooser=chooser)
        out = simloop.run_controlled(s, d, node(spec), tags=list(exec_tags))
        out.pop("exc", None)
        out["nchoices"] = getattr(chooser, "n", None)
        out["aborted"] = out.get("etype") == "Abort"
        return out
    finally:
        simloop.close_backend(be)


def new_repo(scratch: Path, name: str) -> Path:
    return simloop.clone_db(scratch, name)
