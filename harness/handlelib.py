"""
Handle workflows for the call-graph side of C07: one handle is advanced along several independent
branches,  main() -> [hop(hop(conn, 10), 11), hop(hop(conn, 20), 21), ...].  The first hops fork `conn`
in creation order; every later hop receives a state only its own branch holds, so its fork key is 1
whatever the completion order of the other branches: result and recorded call graph are a function of
the program (spec/seq/Handles.tla: fork keys are per (parent job, handle state)).
"""

from __future__ import annotations

from redun import Handle, task

redun_namespace = "verif_handles"


class Conn(Handle):
    def __init__(self, name, arg=0, namespace=None):
        self.arg = arg


@task()
def hop(conn, tag):
    return conn


@task()
def hop_kw(tag, conn=None):
    return conn


@task()
def branches(shape):
    """shape: list of branches; a branch is [handle index, [tags...], keyword?]"""
    conns = [Conn("conn", 1), Conn("conn", 2)]
    out = []
    for hidx, tags, kw in shape:
        x = conns[hidx]
        for t in tags:
            x = hop_kw(t, conn=x) if kw else hop(x, t)
        out.append(x)
    return out


def random_shape(rng) -> list:
    n = rng.randint(2, 4)
    tag = [0]

    def tags(k):
        r = []
        for _ in range(k):
            tag[0] += 1
            r.append(tag[0])
        return r

    return [[rng.randint(0, 1) if rng.random() < 0.4 else 0, tags(rng.randint(1, 3)), rng.random() < 0.25]
            for _ in range(n)]


FIXED = [
    [[0, [10, 11], False], [0, [20, 21], False]],
    [[0, [10, 11, 12], False], [0, [20, 21], False], [0, [30, 31], True]],
    [[0, [10, 11], False], [1, [20, 21], False]],
]
