#!/bin/sh
# setup_cmd: offline self-test of the tool chain; nothing is downloaded or built into /repo.
set -e
cd "$(dirname "$0")"
/venv/bin/python - <<'PY'
import sys, os, glob
sys.path.insert(0, os.getcwd())
from pathlib import Path
from harness.tlc import sany
bad = 0
mods = sorted(glob.glob("spec/**/*.tla", recursive=True))
for m in mods:
    if m.startswith("spec/apalache/"):
        # typed specs for Apalache (EXTENDS Apalache, which is not on TLC's module path): parsed and type
        # checked by Apalache itself
        import subprocess, tempfile, shutil
        d = tempfile.mkdtemp(prefix="verif_apa_")
        p = subprocess.run(["apalache-mc", "typecheck", f"--out-dir={d}", os.path.basename(m)],
                           cwd=os.path.dirname(m), capture_output=True, text=True)
        shutil.rmtree(d, ignore_errors=True)
        ok, out = p.returncode == 0, p.stdout + p.stderr
    else:
        ok, out = sany(Path(m).resolve())
    if not ok:
        bad += 1
        print("SANY FAILED:", m)
        print(out[-1500:])
print(f"sany: {len(mods)-bad}/{len(mods)} modules parse")
import redun
print("redun from", redun.__file__)
sys.exit(1 if bad else 0)
PY
mkdir -p evidence out
echo "setup ok"
