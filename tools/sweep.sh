#!/bin/bash
# usage: tools/sweep.sh <tier> <seed> <parallel> [outdir]
# Runs every check of the given tier; quick runs write the committed evidence files (evidence/<id>.json),
# other tiers write their evidence under <outdir>/ev.  Prints one line per check and a summary.
tier=${1:-quick}; seed=${2:-0}; par=${3:-3}; out=${4:-/verif/out/sweep_${tier}_${seed}}
cd /verif; mkdir -p "$out"; rm -f "$out/summary.txt"
ev=""; [ "$tier" != quick ] && ev="VERIF_EVIDENCE_DIR=$out/ev"
ls harness/props | grep -o 'c[0-9][0-9]' | sort -u | tr a-z A-Z | xargs -P "$par" -I{} bash -c "s=\$(date +%s); env $ev timeout 7200 ./check {} --tier $tier --seed $seed > $out/{}.log 2>&1; echo \"{} exit=\$? wall=\$((\$(date +%s)-s))s\" >> $out/summary.txt"
sort "$out/summary.txt"; echo "non-zero: $(grep -vc 'exit=0 ' "$out/summary.txt")"
