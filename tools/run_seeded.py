#!/venv/bin/python
"""
Run checks against the seeded changes under /verif/seeded/<name>/ (patch.diff, demo, meta.json).

The patch is applied to a scratch copy of /repo's working tree (never to /repo itself, so that other
work reading /repo is not disturbed) and the checks run with VERIF_REPO pointing at the copy -- ./check
imports redun from $VERIF_REPO, which is exactly what applying the patch in /repo and undoing it would
exercise.  Results are written back into meta.json ("checks": {id: {"exit": n, "violations": k}}).

usage: tools/run_seeded.py [name ...] [--tier quick]
"""
import json
import os
import shutil
import subprocess
import sys
import tempfile

HERE = os.path.dirname(os.path.dirname(os.path.abspath(__file__)))


def main():
    args = [a for a in sys.argv[1:] if not a.startswith("--")]
    tier = "quick"
    if "--tier" in sys.argv:
        tier = sys.argv[sys.argv.index("--tier") + 1]
        args = [a for a in args if a != tier]
    names = args or sorted(d for d in os.listdir(os.path.join(HERE, "seeded"))
                           if os.path.isdir(os.path.join(HERE, "seeded", d)))
    for name in names:
        d = os.path.join(HERE, "seeded", name)
        meta_p = os.path.join(d, "meta.json")
        meta = json.load(open(meta_p))
        tmp = tempfile.mkdtemp(prefix="verif_seeded_")
        try:
            subprocess.run(["git", "-C", "/repo", "worktree", "add", "-q", "--detach", tmp + "/wt", "HEAD"], check=True)
            wt = tmp + "/wt"
            r = subprocess.run(["git", "-C", wt, "apply", os.path.join(d, "patch.diff")], capture_output=True, text=True)
            if r.returncode != 0:
                print(f"{name}: patch does not apply: {r.stderr[:300]}")
                meta["applies"] = False
                json.dump(meta, open(meta_p, "w"), indent=1)
                continue
            meta["applies"] = True
            results = {}
            for cid in meta.get("run_checks") or [meta["property"]]:
                env = dict(os.environ, VERIF_REPO=wt, VERIF_EVIDENCE_DIR=tmp + "/evidence")
                p = subprocess.run([os.path.join(HERE, "check"), cid, "--tier", tier], cwd=HERE, env=env,
                                   capture_output=True, text=True)
                nviol = sum(1 for l in p.stdout.splitlines() if l.startswith("VIOLATION"))
                first = next((l for l in p.stdout.splitlines() if l.strip().startswith("what:")), "")
                results[cid] = {"exit": p.returncode, "violation_lines": nviol, "first": first.strip()[:300]}
                print(f"{name}: {cid} exit={p.returncode} violations={nviol}")
            meta["checks"] = results
            meta["caught_by"] = sorted(c for c, r in results.items() if r["exit"] == 1)
            json.dump(meta, open(meta_p, "w"), indent=1)
        finally:
            subprocess.run(["git", "-C", "/repo", "worktree", "remove", "--force", tmp + "/wt"], capture_output=True)
            shutil.rmtree(tmp, ignore_errors=True)


if __name__ == "__main__":
    main()
