#!/bin/bash
# usage: tools/confirm_seed.sh <Cnn> <name>   -- copies /tmp/seed/<Cnn>/_seed into seeded/<name>, confirms patch+demo in a scratch worktree
id=$1; name=$2; src=/tmp/seed/$id/_seed; dst=/verif/seeded/$name; mkdir -p $dst
cp $src/patch.diff $src/demo.py $src/notes.md $dst/ 2>/dev/null
tmp=$(mktemp -d); git -C /repo worktree add -q --detach $tmp/wt HEAD; cd $tmp/wt
PYTHONPATH=$tmp/wt timeout 900 /venv/bin/python $dst/demo.py > $tmp/clean.log 2>&1; c=$?
git apply $dst/patch.diff; a=$?
PYTHONPATH=$tmp/wt timeout 900 /venv/bin/python $dst/demo.py > $tmp/mut.log 2>&1; m=$?
echo "$name: apply=$a demo_clean_exit=$c demo_mutated_exit=$m"
cd /verif; git -C /repo worktree remove --force $tmp/wt; rm -rf $tmp
