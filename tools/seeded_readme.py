#!/venv/bin/python
"""Regenerate seeded/README.md from the meta.json files."""
import json, os
HERE = os.path.dirname(os.path.dirname(os.path.abspath(__file__)))
rows = []
for d in sorted(os.listdir(os.path.join(HERE, "seeded"))):
    mp = os.path.join(HERE, "seeded", d, "meta.json")
    if not os.path.exists(mp):
        continue
    m = json.load(open(mp))
    res = m.get("checks", {})
    ran = ", ".join(f"{c}: {'caught' if r['exit'] == 1 else 'not caught' if r['exit'] == 0 else 'machinery failure'}"
                    for c, r in res.items()) or "(not run yet)"
    rows.append(f"| `{d}` | {m['property']} | {m['what']} | {m['needs']} | {ran} | {m.get('history', '')} |")
txt = """# Seeded changes

Each directory holds a change to insitro/redun that breaks one listed property while the repository's
own test-suite still passes, produced by an independent sub-agent that was given only the text of the
property and a private git worktree (nothing from /verif), together with a demonstration (`demo.py`:
exit 0 on the pristine tree, exit 1 with the change) and `meta.json`. Every change was confirmed here in a
scratch worktree of /repo's HEAD before it was kept (patch applies; demo passes without and fails with the
patch). `tools/run_seeded.py [name ...]` applies each patch in a scratch worktree, runs the listed checks
against it (`VERIF_REPO`), and records the outcome in `meta.json`; nothing is ever applied to /repo.

| change | property | what was changed | what it needs to manifest | quick checks | history |
|---|---|---|---|---|---|
""" + "\n".join(rows) + "\n"
open(os.path.join(HERE, "seeded", "README.md"), "w").write(txt)
print(txt[-1500:])
