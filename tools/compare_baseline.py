#!/usr/bin/env python3
"""Compare a junit xml of the repository's test-suite with the stable_pass set of /root/.vp/BASELINE.json."""
import json, sys, xml.etree.ElementTree as ET
b = json.load(open('/root/.vp/BASELINE.json'))
stable = set(b['stable_pass'])
t = ET.parse(sys.argv[1]).getroot()
passed, failed = set(), set()
for tc in t.iter('testcase'):
    name = f"{tc.get('classname')}::{tc.get('name')}"
    bad = any(ch.tag in ('failure', 'error', 'skipped') for ch in tc)
    (failed if bad else passed).add(name)
missing = sorted(stable - passed)
print(f"stable_pass={len(stable)} passed_now={len(passed)} failed_or_skipped_now={len(failed)} stable_not_passing={len(missing)}")
for m in missing[:40]:
    print("  NOT PASSING:", m, "(failed/skipped)" if m in failed else "(absent)")
sys.exit(1 if missing else 0)
