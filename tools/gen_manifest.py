#!/venv/bin/python
"""Regenerate MANIFEST.json from the META of every harness/props/cNN.py (one source of truth)."""
import importlib
import json
import os
import sys

HERE = os.path.dirname(os.path.dirname(os.path.abspath(__file__)))
sys.path.insert(0, HERE)
os.environ.setdefault("PYTHONPATH", "/repo")

NA_FILE = os.path.join(HERE, "tools", "not_applicable.json")

BASELINE = ("cd /repo && env -u REDUN_VERIF /venv/bin/python -m pytest -ra -q -p no:cacheprovider "
            "--timeout=900 --continue-on-collection-errors")


def main():
    props = [json.loads(l) for l in open(os.path.join(HERE, "properties.jsonl"))]
    na_reasons = json.load(open(NA_FILE)) if os.path.exists(NA_FILE) else {}
    checks, na, engines = [], [], {}
    ready = set(json.load(open(os.path.join(HERE, "tools", "ready.json"))))
    for p in props:
        pid = p["id"]
        path = os.path.join(HERE, "harness", "props", pid.lower() + ".py")
        if not os.path.exists(path) or pid in na_reasons or pid not in ready:
            na.append({"property_id": pid,
                       "reason": na_reasons.get(pid, "no check built yet in this round (specification and binding still to come; see DESIGN.md section 3)")})
            continue
        mod = importlib.import_module(f"harness.props.{pid.lower()}")
        m = mod.META
        eng = m.get("engine", "tlc+python-driver")
        engines.setdefault(eng, []).append(pid)
        c = {
            "property_id": pid,
            "quick_cmd": f"./check {pid} --tier quick",
            "thorough_cmd": f"./check {pid} --tier thorough",
            "evidence_file": f"/verif/evidence/{pid}.json",
            "replay_cmd_template": f"./check {pid} --replay {{path}}",
            "engine": eng,
            "level_claimed": {
                "category": m.get("level", "model_checking"),
                "text": m["level_text"],
                "design_ref": m.get("design_ref", f"DESIGN.md section 3 ({pid})"),
            },
            "level_note": m["level_note"],
            "technique": m["technique"],
        }
        checks.append(c)
    man = {
        "version": 1,
        "setup_cmd": "./setup.sh",
        "hooks": {
            "guard": "REDUN_VERIF",
            "enable": "REDUN_VERIF=1 is exported by ./check before redun is imported; redun is imported from /repo's working tree (editable install), nothing is built",
            "baseline_off_cmd": BASELINE,
            "source_commits": json.load(open(os.path.join(HERE, "tools", "hook_commits.json"))) if os.path.exists(os.path.join(HERE, "tools", "hook_commits.json")) else [],
            "add_only": True,
        },
        "engines": [
            {"name": k, "path": "/verif/harness", "serves_properties": v,
             "kind_free_text": "explicit TLA+ specification checked by TLC 1.8, bound to the code by spec->code replay and code->spec trace validation"}
            for k, v in sorted(engines.items())
        ],
        "checks": checks,
        "not_applicable": na,
        "notes": "One check per property: ./check <id> --tier quick|thorough. Specifications in /verif/spec, drivers in /verif/harness/props. Known findings in /verif/known_findings.json. See DESIGN.md.",
    }
    with open(os.path.join(HERE, "MANIFEST.json"), "w") as f:
        json.dump(man, f, indent=1)
        f.write("\n")
    try:
        import jsonschema
        jsonschema.validate(man, json.load(open("/root/.vp/MANIFEST.schema.json")))
        print(f"MANIFEST.json valid: {len(checks)} checks, {len(na)} not_applicable")
    except ImportError:
        print("jsonschema missing; not validated")


if __name__ == "__main__":
    main()
